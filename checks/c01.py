"""C01 (slices) - the units queries neither recurse without bound nor dereference null nor throw, for reference graphs over
three user units; the numeric-text slice of C01 is the C16 check."""
import shutil
import vfw

H = 'c01/h_c01.cpp'
ROOTS = ['h_is_defined', 'h_scaling', 'h_compatible', 'h_is_base']
# (R0, R0B, R1, R2): reference of each unit child: 0,1,2 = units a,b,c; 3 = standard "second"; 4 = missing
ACYCLIC = {'missing references': (1, 4, 2, 4), 'standard only': (3, 3, 3, 3), 'fan-in': (2, 1, 2, 3), 'chain a->b->c': (1, 3, 2, 3)}
CYCLIC = {'self reference': (0, 3, 3, 3), 'two-cycle': (1, 3, 0, 3), 'three-cycle': (1, 3, 2, 0)}


def defs_for(sh):
    return ['VSTD_STR_CAP=23', 'VSTD_VEC_CAP=4', 'R0=%d' % sh[0], 'R0B=%d' % sh[1], 'R1=%d' % sh[2], 'R2=%d' % sh[3]]


def run(fw):
    fw.assumptions += ['three user units with 4 unit children in total; the reference graph is one shape per solver query (4 acyclic, 3 cyclic shapes); exponents and multipliers symbolic over 3 values each',
                       'recursion is unwound 8 deep with unwinding assertions: for the acyclic shapes this proves termination within that depth',
                       'the cyclic shapes are a listed finding (unbounded recursion, replayed as a stack overflow of the real library under a 64 MiB stack); they are excluded from the proof while it is listed',
                       'h_imported (imported units with a dangling reference) is NOT decided by the solver: its 4 input combinations are executed on the model and on the real library', 'outside: everything else of C01 - libxml2 parsing, printer, validator, analyser, generator runs on arbitrary byte strings; uncaught exceptions from numeric text are the C16 check']
    fw.known_finding_lines()
    listed = fw.kf_listed('C01-cyclic-units')
    jobs = []
    for nm, sh in ACYCLIC.items():
        for r in ROOTS:
            # scalingFactor/compatible run the whole reduction (tables, maps of doubles): only the smallest shape is within the
            # quick budget (measured 80-110 s); the other shapes are attempted in the thorough tier as best effort
            heavy = r in ('h_scaling', 'h_compatible') and nm != 'missing references'
            if heavy and fw.tier == 'quick':
                continue
            jobs.append((r, nm, sh, False, heavy))
    jobs.append(('h_unowned', 'units not owned by a model', (4, 3, 3, 3), False, False))
    # imported units (no model / model with / model without the referenced units): the solver has no verdict in 900 s (measured);
    # both tiers = all 4 combinations of its two symbolic bits executed on model and real library (not a solver verdict, stated in
    # the evidence); the solver query (686 s, then an unwinding bound of a set<char> initialiser too small) is not registered
    jobs.append(('h_imported', 'imported units, dangling import reference', (4, 3, 3, 3), False, True))
    if not listed:
        for nm, sh in CYCLIC.items():
            for r in ROOTS[:3]:
                jobs.append((r, nm, sh, True, False))
    wit = {('h_is_defined', 'missing references'), ('h_scaling', 'missing references'), ('h_is_defined', 'chain a->b->c')}

    def one(j):
        root, nm, sh, cyc, heavy = j
        defs = defs_for(sh)
        name = 'c01_%s_%s' % (root, ''.join(map(str, sh)))
        m = fw.build_model(name, H, [root], defines=defs)
        us = fw.unwindset(m, root, vfw.std_rules(string=20))
        lab = '%s[%s]' % (root, nm)
        if root == 'h_imported':
            fw.differential(m, root, H, seeds=4, defines=defs, vectors=[[a, b] for a in (0, 1) for b in (0, 1)])
            shutil.rmtree(m.dir, ignore_errors=True)
            return
        r = fw.cbmc(m, root, unwind=8, unwindset=us, timeout=1500, label=lab, symbolic='exponents and multipliers of the 4 unit children')
        if r['status'] != 'SUCCESS':
            fw.log(lab, r['status'], r['wall'], [(f['msg'], f['inputs']) for f in r['failed']][:3])
        fw.handle(r, H, defs, stack_mb=64, crash_ok_msgs=('recursion unwinding assertion',), best_effort=heavy)
        if (root, nm) in wit:
            mw = fw.build_model(name + 'w', H, [root], defines=defs + ['WITNESS'])
            fw.witness(mw, root, unwind=8, unwindset=us, timeout=1500, label='witness:' + lab)
        if not cyc:
            fw.differential(m, root, H, seeds=15, defines=defs)
        shutil.rmtree(m.dir, ignore_errors=True)
    vfw.pmap(one, jobs, 14)
