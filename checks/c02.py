"""C02 (printer text kernel) - the text assembled for one element is well-formed and decodes to the content."""
import vfw

H = 'c02/h_c02.cpp'
ROOTS = ['h_print_variable', 'h_print_variable_id', 'h_print_variable_interface']  # h_print_units (harness kept) needs 700 s: isStandardUnit looks the symbolic name up in the 30-entry table
SRC = vfw.OBJ_SOURCES + ['printer']
KF = 'C02-unescaped-attribute-text'


def run(fw):
    n = 3 if fw.tier == 'quick' else 4
    fw.known_finding_lines()
    excl = ['KNOWN_UNESCAPED_ATTRIBUTE_TEXT'] if fw.kf_listed(KF) else []
    defs = ['MAXLEN=%d' % n, 'VSTD_STR_CAP=31'] + excl
    ms = dict(vfw.pmap(lambda r: (r, fw.build_model('c02_' + r, H, [r], sources=SRC, defines=defs)), ROOTS, 3))
    mws = dict(vfw.pmap(lambda r: (r, fw.build_model('c02w_' + r, H, [r], sources=SRC, defines=defs + ['WITNESS'])), ROOTS, 3))
    fw.log('models built')
    fw.assumptions += ['names of length <= %d over all byte values that are XML characters (tab, LF, CR, >= 0x20); longer names are outside the claim' % n,
                       'only PrinterImpl::printVariable with one attribute at a time (name, id, interface): the other elements/attributes, math, connections, '
                       'the libxml2 re-parse/pretty-print and the parser side of the round trip are outside this slice',
                       'reference = XML 1.0 AttValue reader with entity decoding and attribute-value normalisation, written in the harness']
    if excl:
        fw.assumptions.append('listed finding %s: names containing & < " tab LF CR are excluded from the query (each is replayed on the real library above)' % KF)
    u = 34
    to = 900 if fw.tier == 'quick' else 2400
    rules = vfw.std_rules(string=34, vector=8, extra=[(r'faithful|readAttValue|startsWith', 6 * n + 28)])

    def ob(root):
        r = fw.cbmc(ms[root], root, unwind=u, unwindset=fw.unwindset(ms[root], root, rules), timeout=to, label='%s[len<=%d]' % (root, n),
                    symbolic='attribute text: length and %d bytes' % n)
        fw.log(root, r['status'], r['wall'], [f['msg'] for f in r['failed']][:5])
        fw.handle(r, H, defs)

    def wit(root):
        fw.witness(mws[root], root, unwind=u, unwindset=fw.unwindset(mws[root], root, rules), timeout=to, label='witness:' + root)
    vfw.pmap(lambda j: j[0](j[1]), [(ob, r) for r in ROOTS] + [(wit, r) for r in ROOTS], 4)
    vfw.pmap(lambda root: fw.differential(ms[root], root, H, seeds=60, defines=defs), ROOTS, 2)


FINISH = dict(rule='one obligation = one CBMC query over ALL names within the stated bound; non-trivial = has solver variables')
