"""C04 (identifier-syntax slice) - the two text kernels behind every identifier rule of the validator."""
import vfw

H = 'c04/h_c04.cpp'
ROOTS = ['h_cellml_identifier', 'h_xml_name']
SRC = vfw.OBJ_SOURCES + ['validator']


def run(fw):
    n = 6 if fw.tier == 'quick' else 8
    ncp = 3 if fw.tier == 'quick' else 4
    defs = ['MAXLEN=%d' % n, 'NCP=%d' % ncp, 'VSTD_STR_CAP=23']
    ms = dict(vfw.pmap(lambda r: (r, fw.build_model('c04_' + r, H, [r], sources=SRC, defines=defs)), ROOTS, 2))
    mws = dict(vfw.pmap(lambda r: (r, fw.build_model('c04w_' + r, H, [r], sources=SRC, defines=defs + ['WITNESS'])), ROOTS, 2))
    fw.log('models built')
    fw.assumptions += ['CellML identifiers: every byte string of length <= %d over byte values 1..255' % n,
                       'XML names: every sequence of <= %d Unicode scalar values (1..0x10FFFF without surrogates), UTF-8 encoded by the harness; '
                       'ill-formed UTF-8 and longer names are outside the claim' % ncp,
                       'reference grammar for identifiers = the one the validator documents (non-empty, [A-Za-z0-9_], no leading digit)',
                       'only the two kernels are decided: that every validate*() function calls them at every location is outside this slice']
    u = {'h_cellml_identifier': n + 2, 'h_xml_name': 4 * ncp + 2}
    # find_first_not_of scans the 63-character alphabet once per input byte
    rules = lambda root: vfw.std_rules(string=max(16, u[root]), vector=max(8, u[root]), extra=[(r'find_first_not_of', 65)])
    to = 900 if fw.tier == 'quick' else 2400

    def ob(root):
        r = fw.cbmc(ms[root], root, unwind=u[root], unwindset=fw.unwindset(ms[root], root, rules(root)), timeout=to,
                    label='%s[%s]' % (root, 'len<=%d' % n if root == 'h_cellml_identifier' else 'code points<=%d' % ncp),
                    symbolic='string length and %d bytes' % n if root == 'h_cellml_identifier' else '%d code points (21 bits each) and the count' % ncp)
        fw.log(root, r['status'], r['wall'], [f['msg'] for f in r['failed']][:5])
        fw.handle(r, H, defs)

    def wit(root):
        fw.witness(mws[root], root, unwind=u[root], unwindset=fw.unwindset(mws[root], root, rules(root)), timeout=to, label='witness:' + root)
    vfw.pmap(lambda j: j[0](j[1]), [(ob, r) for r in ROOTS] + [(wit, r) for r in ROOTS], 4)
    vfw.pmap(lambda root: fw.differential(ms[root], root, H, seeds=80, defines=defs), ROOTS, 2)
    # boundary code points of every range in the XML Name grammar, as first and as second character, through model and real library
    edges = [0x3A, 0x41, 0x5A, 0x5F, 0x61, 0x7A, 0xB7, 0xBF, 0xC0, 0xD6, 0xD7, 0xD8, 0xF6, 0xF7, 0xF8, 0x2FF, 0x300, 0x36F, 0x370, 0x37D, 0x37E, 0x37F, 0x1FFF, 0x2000,
             0x200B, 0x200C, 0x200D, 0x200E, 0x203E, 0x203F, 0x2040, 0x2041, 0x206F, 0x2070, 0x218F, 0x2190, 0x2BFF, 0x2C00, 0x2FEF, 0x2FF0, 0x3000, 0x3001, 0xD7FF,
             0xE000, 0xF8FF, 0xF900, 0xFDCF, 0xFDD0, 0xFDEF, 0xFDF0, 0xFFFD, 0xFFFE, 0xFFFF, 0x10000, 0xEFFFF, 0xF0000, 0x10FFFF, 0x2D, 0x2E, 0x30, 0x39]
    pad = [0x41] * (ncp - 2)
    vecs = [[1, e, 0x41] + pad for e in edges] + [[2, 0x41, e] + pad for e in edges]
    fw.differential(ms['h_xml_name'], 'h_xml_name', H, vectors=vecs, defines=defs)


FINISH = dict(rule='one obligation = one CBMC query over ALL strings within the stated bound; non-trivial = has solver variables')
