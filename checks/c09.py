"""C09 - ownership invariants survive one API call from small concrete states; bad arguments never crash."""
import re, os, shutil
import vfw

H = 'c09/h_c09.cpp'


def run(fw):
    roots = re.findall(r'extern "C" void (\w+)\(\)', open(os.path.join(vfw.VERIF, 'harness', H)).read())
    jobs = []
    for r in roots:
        if r == 's_equivalence_arguments':
            jobs += [(r, []), (r, ['FOURARG'])]
        else:
            jobs.append((r, []))
    fw.assumptions += ['inductive-step style: one call (three scenarios: two or three consecutive calls) from a concrete micro-world (2 children per container); names over two letters, index classes {0,1,2,SIZE_MAX,2^40}, prepared entity choices are symbolic',
                       'no-destroy mode of the shared_ptr model: object lifetime (use after release of an owner) is outside this check',
                       'outside: longer histories, containers with more than 2 children, services taking entities (annotator, importer, analyser, analyser model)']
    fw.known_finding_lines()
    kle = fw.kf_listed('C09-lookalike-in-earlier-subtree')
    wit = {'s_remove_component_pointer', 's_replace_component', 's_add_component_hierarchy', 's_units_index', 's_equivalence_arguments'}

    def one(j):
        root, extra = j
        defs = ['VSTD_STR_CAP=23', 'VSTD_VEC_CAP=4'] + extra + (['KNOWN_LOOKALIKE_EARLIER_SUBTREE'] if (kle and root == 's_remove_component_encapsulated') else [])
        name = 'c09_%s_%d' % (root, len(extra))
        m = fw.build_model(name, H, [root], defines=defs)
        us = fw.unwindset(m, root, vfw.std_rules())
        lab = root + ('[4-argument]' if extra else '')
        r = fw.cbmc(m, root, unwind=6, unwindset=us, timeout=1500, label=lab, symbolic='names, index class, entity choice')
        if r['status'] != 'SUCCESS':
            fw.log(lab, r['status'], r['wall'], [(f['msg'], f['inputs']) for f in r['failed']][:4])
        fw.handle(r, H, defs)
        if root in wit and not extra:
            mw = fw.build_model(name + 'w', H, [root], defines=defs + ['WITNESS'])
            fw.witness(mw, root, unwind=6, unwindset=us, timeout=1500, label='witness:' + lab)
        fw.differential(m, root, H, seeds=25, defines=defs)
    vfw.pmap(one, jobs, 14)
