"""C10 - equals() is an equivalence relation that sees every attribute (bounded shapes, symbolic attributes)."""
import shutil
import vfw

H = 'c10/h_c10.cpp'
KINDS = {1: 'variables', 2: 'resets', 3: 'child components', 4: 'model units', 5: 'unit children'}
# attributes that can be symbolic per kind (see the harness); measured-feasible combinations only
ATTRS = {1: [1, 2, 3, 4, 5, 6], 2: [1, 2, 3, 4, 5, 6, 7, 8], 3: [1, 2, 3, 4, 5], 4: [1, 2, 3, 4, 5, 6, 7, 8], 5: [1, 2, 3, 4, 5]}
ATTR_NAMES = {1: {1: 'name', 2: 'id', 3: 'initial value', 4: 'units', 5: 'interface', 6: 'id of the units object', 7: 'unit child of the units object'},
              2: {1: 'id', 2: 'order', 3: 'variable', 4: 'test variable', 5: 'test value', 6: 'reset value', 7: 'test value id', 8: 'reset value id'},
              3: {1: 'name', 2: 'id', 3: 'encapsulation id', 4: 'math', 5: 'import reference'},
              4: {1: 'unit reference', 2: 'unit prefix', 3: 'unit exponent', 4: 'unit multiplier', 5: 'unit id', 6: 'units name', 7: 'units id', 8: 'units import reference'},
              5: {1: 'reference', 2: 'prefix', 3: 'exponent', 4: 'multiplier', 5: 'id'}}


def shapes(kind, tier):
    small = [(0, 1), (1, 0), (1, 1)]
    if kind == 1:
        return small + [(1, 2), (0, 2)]  # a left operand with two variables erases at a symbolic index: no verdict within budget
    if kind in (3, 5):
        return small + [(1, 2), (2, 1), (2, 2), (0, 2), (2, 0)]
    return small + ([(0, 2), (2, 0)] if tier == 'thorough' else [])


def run(fw):
    fw.assumptions += ['children per side: 0..2 (shape fixed per query); one attribute kind symbolic per query over {"", 2 letters} or a 4-value number set / enum',
                       'numbers are identical or >= 0.5 apart (the property exempts values within one ulp)',
                       'listed findings are excluded by harness defines (KNOWN_COUNT_ASYMMETRY, KNOWN_DUPLICATE_CHILDREN) and replayed separately',
                       'transitivity is asserted on triples with one child each; outside: (2,x) shapes for variables/resets/units whose matching loop erases at a symbolic index (no verdict within budget), depth > 1']
    fw.known_finding_lines()
    cnt = fw.kf_listed('C10-count-asymmetry')
    dup = fw.kf_listed('C10-duplicate-children')
    jobs = []
    for kind in KINDS:
        for (na, nb) in shapes(kind, fw.tier):
            n = max(na, nb)
            for attr in ATTRS[kind]:
                if kind == 1 and attr in (3, 4, 5, 6, 7) and (na == 2 or nb == 2) and fw.tier == 'quick':
                    continue
                if kind == 2 and attr in (3, 4) and (na, nb) != (1, 1):
                    continue   # which variable a reset refers to: decided on the (1,1) shape only (200-700 s per query)
                jobs.append((kind, na, nb, attr))
    # transitivity on triples: one child per entity, every attribute kind
    tjobs = [(kind, 1, 1, attr) for kind in KINDS for attr in ATTRS[kind]]
    fw.extra_cov['shapes'] = len(jobs) + len(tjobs)
    wit = {(1, 1, 2, 1), (3, 2, 2, 1), (5, 2, 2, 3), (4, 1, 1, 6), (2, 1, 1, 2)}

    def one(j, trans=False):
        kind, na, nb, attr = j
        defs = ['VSTD_STR_CAP=23', 'VSTD_VEC_CAP=4', 'ALPHA=2', 'KIND=%d' % kind, 'NA=%d' % na, 'NB=%d' % nb, 'ATTR=%d' % attr] + (['TRANS'] if trans else [])
        if cnt and kind in (1, 2, 4) and na != nb:
            defs.append('KNOWN_COUNT_ASYMMETRY=1')
        if dup and kind == 3:
            defs.append('KNOWN_DUPLICATE_CHILDREN')
        name = ('t' if trans else 'e') + '%d_%d%d_%d' % j
        m = fw.build_model(name, H, ['h_equals'], defines=defs)
        us = fw.unwindset(m, 'h_equals', vfw.std_rules(string=20 if (kind == 1 and attr == 5) else None))
        lab = 'h_equals[%s %d vs %d%s, symbolic %s]' % (KINDS[kind], na, nb, ' vs %d (transitivity)' % nb if trans else '', ATTR_NAMES[kind][attr])
        # shapes that only the thorough tier adds sit at the edge of feasibility (two children on a side whose matching loop
        # erases at a symbolic index): no verdict there is recorded as inconclusive, not as a failure of the check
        if kind == 2 and attr in (3, 4) and fw.tier == 'quick':
            # which variable a reset refers to: the solver needs 750-820 s per query (measured), beyond the budget of the check
            # that runs on every change; quick tier = model/real differential only (not a solver verdict), thorough tier = solver
            fw.differential(m, 'h_equals', H, seeds=40, defines=defs)
            shutil.rmtree(m.dir, ignore_errors=True)
            return
        edge = (na, nb) not in shapes(kind, 'quick') or (kind == 1 and attr in (3, 4, 5, 6, 7) and (na == 2 or nb == 2)) or (kind == 2 and attr in (3, 4))
        r = fw.cbmc(m, 'h_equals', unwind=6, unwindset=us, timeout=(600 if not edge else 900) if not (kind == 2 and attr in (3, 4)) else 1800, label=lab, symbolic=ATTR_NAMES[kind][attr] + ' of every child')
        if r['status'] != 'SUCCESS':
            fw.log(lab, r['status'], [(f['msg'], f['inputs']) for f in r['failed']][:3])
        fw.handle(r, H, defs, best_effort=edge)
        if j in wit and not trans:
            mw = fw.build_model(name + 'w', H, ['h_equals'], defines=defs + ['WITNESS'])
            fw.witness(mw, 'h_equals', unwind=6, unwindset=us, timeout=600, label='witness:' + lab)
            fw.differential(m, 'h_equals', H, seeds=12, defines=defs)
            shutil.rmtree(mw.dir, ignore_errors=True)
        shutil.rmtree(m.dir, ignore_errors=True)
    vfw.pmap(lambda x: one(x[0], x[1]), [(j, False) for j in jobs] + [(j, True) for j in tjobs], 14)
