"""C11 - clone() is a faithful, independent deep copy."""
import vfw

H = 'c11/h_c11.cpp'
GROUPS = {1: 'model and units attributes', 2: 'component attributes', 3: 'variable attributes', 4: 'reset attributes'}


def run(fw):
    fw.assumptions += ['one skeleton: model / units with one unit / component with a child component / two variables / one reset; every string attribute over {"", 2 letters}, reset order flag and value, interface enum, unit numbers symbolic',
                       'oracle: getter-by-getter comparison written in the harness (the information the printer serialises), not the libxml2 printer',
                       'outside: cloning of variable equivalences and their ids by Model::clone (no solver verdict within budget: attempted as best effort in the thorough tier), import sources']
    base = ['VSTD_STR_CAP=23', 'VSTD_VEC_CAP=4']
    jobs = [('h_clone_model', g, []) for g in GROUPS] + [('h_clone_independent', g, []) for g in (2, 3)] + [('h_clone_parts', 0, []), ('h_clone_parts', 4, ['DISTINCT_TESTVAR'])]
    if fw.tier == 'thorough':
        # the equivalence transfer of Model::clone has had no verdict within 25 min on any skeleton tried (DESIGN 11.5): one
        # minimal best-effort attempt is kept so that a future, faster encoding shows up as a discharged obligation
        jobs += [('h_clone_model', 0, []), ('h_clone_equivalence', 0, ['EQUIV_ATTEMPT'])]

    def one(j):
        root, g, extra = j
        defs = base + ['GROUP=%d' % g] + extra
        name = 'c11_%s_%d_%d' % (root, g, len(extra))
        m = fw.build_model(name, H, [root], defines=defs)
        us = fw.unwindset(m, root, vfw.std_rules(string=20))
        lab = '%s[symbolic: %s%s]' % (root, GROUPS.get(g, 'all attributes'), ', reset test variable distinct from its variable' if extra == ['DISTINCT_TESTVAR'] else ', with equivalence' if extra else '')
        r = fw.cbmc(m, root, unwind=6, unwindset=us, timeout=900 if (not extra or extra == ['DISTINCT_TESTVAR']) else 1500, label=lab, symbolic=GROUPS.get(g, 'all attributes'))
        fw.log(lab, r['status'], r['wall'], [(f['msg'], f['inputs']) for f in r['failed']][:4])
        fw.handle(r, H, defs, best_effort=(bool(extra) and extra != ['DISTINCT_TESTVAR']) or (root == 'h_clone_model' and g == 0))
        if not extra and g in (0, 3, 4):
            mw = fw.build_model(name + 'w', H, [root], defines=defs + ['WITNESS'])
            fw.witness(mw, root, unwind=6, unwindset=us, timeout=900, label='witness:' + lab)
        if not extra or extra == ['DISTINCT_TESTVAR']:
            fw.differential(m, root, H, seeds=15, defines=defs)
    vfw.pmap(one, jobs, 12)
