"""C15 - issue reporting is coherent (Logger step harness)."""
import os, re
import vfw

H = 'c15/h_c15.cpp'
SRCS = ['logger', 'issue', 'entity', 'internaltypes', 'types']


def contract_check(fw):
    """the caller contract assumed for the private removeError is re-derived from the source on every run"""
    sites = []
    for f in sorted(os.listdir(os.path.join(vfw.REPO, 'src'))):
        if f.endswith(('.cpp', '.h')) and not f.startswith('logger'):
            txt = open(os.path.join(vfw.REPO, 'src', f)).read().split('\n')
            for i, l in enumerate(txt):
                if 'removeError(' in l:
                    ctx = '\n'.join(txt[max(0, i - 4):i + 1])
                    ok = f == 'importer.cpp' and re.search(r'for \(size_t index = endIndex; startIndex < index; --index\)', ctx) and 'removeError(index - 1)' in l
                    sites.append((f, i + 1, bool(ok)))
    fw.extra_cov['removeError_call_sites'] = sites
    bad = [s for s in sites if not s[2]]
    if bad:
        raise vfw.FrameworkError('encoding not regenerable: removeError() is called outside the two reviewed count-down loops of importer.cpp: %s' % bad)


def run(fw):
    contract_check(fw)
    n = 3 if fw.tier == 'quick' else 4
    fw.assumptions += ['state = result of %d addIssue calls with symbolic levels, then one of {addIssue(any level), removeAllIssues, removeError} with symbolic choice' % n,
                       'removeError (private) is exercised under its callers\' contract: the removed error is the last issue of the list; the two call sites in importer.cpp are re-checked textually on every run',
                       'outside: the ReferenceRule table (134 x 4 strings: no solver verdict within budget, measured), AnyCellmlElement accessors, "a failing result is always explained" for parser/validator/analyser/importer runs']
    def depth(k):
        defs = ['VSTD_STR_CAP=7', 'VSTD_VEC_CAP=8', 'NISSUES=%d' % k]
        m = fw.build_model('c15_%d' % k, H, ['h_logger'], sources=SRCS, defines=defs)
        mw = fw.build_model('c15w_%d' % k, H, ['h_logger'], sources=SRCS, defines=defs + ['WITNESS'])
        us = fw.unwindset(m, 'h_logger', vfw.std_rules())

        def a(_):
            r = fw.cbmc(m, 'h_logger', unwind=k + 7, unwindset=us, timeout=1500, label='h_logger[%d issues + 1 operation]' % k, symbolic='%d issue levels, the operation, its level, an index' % k)
            fw.log('h_logger', k, r['status'], r['wall'], [(f['msg'], f['inputs']) for f in r['failed']][:4])
            fw.handle(r, H, defs)

        def b(_):
            fw.witness(mw, 'h_logger', unwind=k + 7, unwindset=us, timeout=1500, label='witness:h_logger[%d]' % k)
        vfw.pmap(lambda f: f(0), [a, b], 2)
        fw.differential(m, 'h_logger', H, seeds=40, defines=defs)
    vfw.pmap(depth, [n - 1, n], 2)
