"""C16 - numeric text is recognised per the CellML grammar and never crashes."""
import vfw

H = 'c16/h_c16.cpp'
ROOTS = ['h_recognisers', 'h_conversions', 'h_units_prefix', 'h_units_scaling_prefix', 'h_printed_real', 'h_printed_int', 'h_int_range']


def run(fw):
    n = 4 if fw.tier == 'quick' else 6
    defs = ['MAXLEN=%d' % n, 'VSTD_STR_CAP=23']
    # one model per root: only the constant tables that root can reach are initialised in it
    ms = dict(vfw.pmap(lambda r: (r, fw.build_model('c16_' + r, H, [r], defines=defs)), ROOTS, 5))
    mws = dict(vfw.pmap(lambda r: (r, fw.build_model('c16w_' + r, H, [r], defines=defs + ['WITNESS'])), ROOTS, 5))
    fw.log('models built')
    fw.assumptions += ['strings of length <= %d, every byte value 1..255 (longer strings are outside the claim)' % n,
                       'std::stod/std::stoi modelled by their documented contract (fw/rt/vrt_num.c); the numeric value returned by stod is an arbitrary finite double',
                       'ostream<<double not executed: the printer side is checked as "every text in the %.15g output grammar of a finite double is accepted"',
                       'the constant tables (standard prefixes/units) are precomputed by running the static initialisers natively']
    # loops over the symbolic string need n+1 iterations; loops over table keys need 16; a printed int has up to 11 characters
    cfg = {
        'h_recognisers': dict(unwind=n + 2, rules=vfw.std_rules()),
        'h_conversions': dict(unwind=n + 2, rules=vfw.std_rules(string=16)),
        'h_units_prefix': dict(unwind=n + 2, rules=vfw.std_rules(string=16, vector=8)),
        'h_units_scaling_prefix': dict(unwind=n + 2, rules=vfw.std_rules(string=16, vector=8)),
        'h_printed_real': dict(unwind=n + 2, rules=vfw.std_rules()),
        'h_printed_int': dict(unwind=13, rules=vfw.std_rules(string=13)),
        'h_int_range': dict(unwind=24, rules=vfw.std_rules(string=24)),
    }
    roots = ROOTS if fw.tier == 'thorough' else [r for r in ROOTS if r != 'h_units_scaling_prefix']
    to = 900 if fw.tier == 'quick' else 2400

    def ob(root):
        c = cfg[root]
        r = fw.cbmc(ms[root], root, unwind=c['unwind'], unwindset=fw.unwindset(ms[root], root, c['rules']), timeout=to, label='%s[len<=%d]' % (root, n),
                    symbolic='string length and %d bytes (1..255 each)' % n if root not in ('h_printed_int', 'h_int_range') else 'a 32-bit int' if root == 'h_printed_int' else 'sign, stem and last digits of a decimal integer around the int limits')
        fw.log(root, r['status'], r['wall'], [f['msg'] for f in r['failed']][:5])
        fw.handle(r, H, defs, best_effort=(root == 'h_units_scaling_prefix'))

    def wit(root):
        if root == 'h_units_scaling_prefix':
            return
        c = cfg[root]
        fw.witness(mws[root], root, unwind=c['unwind'], unwindset=fw.unwindset(mws[root], root, c['rules']), timeout=to, label='witness:' + root)
    vfw.pmap(lambda j: j[0](j[1]), [(ob, r) for r in roots] + [(wit, r) for r in roots], 10)
    vfw.pmap(lambda root: fw.differential(ms[root], root, H, seeds=60, defines=defs), ROOTS, 6)
    # the repository's own numeric literals and the historical counterexamples, through model and real library
    lits = ['-', '.', '-.', '-e1', '.e84', '1', '-1', '1.', '.5', '1e5', '1E-5', '1e+5', '+1', ' 1', '1 ', '1e', 'e1', '1.2.3', '0x1', 'inf', 'nan', '٣', '1e99', '-0', '007']
    vecs = [[len(t.encode('utf-8')[:n])] + list((t.encode('utf-8')[:n] + b'\x01' * n)[:n]) for t in lits]
    for root in ['h_recognisers', 'h_conversions', 'h_printed_real']:
        fw.differential(ms[root], root, H, vectors=vecs, defines=defs)


FINISH = dict(rule='one obligation = one CBMC query over ALL strings of the stated length bound (or all ints); non-trivial = has solver variables')
