"""C18 - variable-equivalence queries agree with the connection graph."""
import hashlib, json, os, re, subprocess, threading, time
import vfw
import ir2smt

HC = 'c18/h_cache.cpp'
HG = 'c18/h_graph.cpp'
SRC = os.path.join(vfw.REPO, 'src/analysermodel.cpp')

KERNEL = '''// generated on every run from %s (statements between the address casts and the cache lookup)
#include <cstdint>
#include <cstdio>
#include <cstdlib>
#include <map>
#include <utility>
auto verif_key(uintptr_t v1, uintptr_t v2)
{
%s
    return key;
}
#ifdef REPLAY_MAIN
int main(int argc, char **argv)
{
    uintptr_t a[4];
    for (int i = 0; i < 4; ++i) a[i] = strtoull(argv[i + 1], nullptr, 0);
    bool same = verif_key(a[0], a[1]) == verif_key(a[2], a[3]);
    bool sym = verif_key(a[0], a[1]) == verif_key(a[1], a[0]);
    printf("SAMEKEY %%d SYMMETRIC %%d\\n", same ? 1 : 0, sym ? 1 : 0);
    return 0;
}
#endif
'''


def extract_key_statements():
    src = open(SRC).read().split('\n')
    i0 = [i for i, l in enumerate(src) if 'reinterpret_cast<uintptr_t>(variable2.get())' in l]
    i1 = [i for i, l in enumerate(src) if 'mCachedEquivalentVariables.find(' in l]
    if len(i0) != 1 or len(i1) != 1 or i1[0] <= i0[0]:
        raise vfw.FrameworkError('encoding not regenerable: anchors of the cache-key computation not found in analysermodel.cpp')
    body = '\n'.join(src[i0[0] + 1:i1[0]])
    if not re.search(r'\bkey\b', body):
        raise vfw.FrameworkError('encoding not regenerable: no variable named key between the anchors')
    return body


def race(solvers, path, timeout):
    """run several SMT solvers on one file; stop 3 s after the first definite answer. returns {name: (verdict, output, seconds)}"""
    procs = {k: (subprocess.Popen(cmd + [path], stdout=subprocess.PIPE, stderr=subprocess.PIPE, text=True), time.time()) for k, cmd in solvers}
    res = {}
    t0 = time.time()
    first = None
    while procs and time.time() - t0 < timeout and (first is None or time.time() - first < 3):
        for k, (p, ts) in list(procs.items()):
            if p.poll() is not None:
                out = p.stdout.read()
                v = out.strip().split('\n')[0].strip() if out.strip() else 'error'
                if v not in ('sat', 'unsat', 'unknown'):
                    v = 'error'   # an (error ...) before the verdict makes the answer inconclusive; get-value after unsat is expected
                res[k] = (v, out, time.time() - ts)
                del procs[k]
                if v in ('sat', 'unsat') and first is None:
                    first = time.time()
        time.sleep(0.05)
    for k, (p, ts) in procs.items():
        p.kill()
        res[k] = ('timeout' if first is None else 'cancelled', '', time.time() - ts)
    return res


def key_obligations(fw):
    body = extract_key_statements()
    d = os.path.join(fw.scratch, 'key')
    os.makedirs(d, exist_ok=True)
    kcpp = os.path.join(d, 'kernel.cpp')
    open(kcpp, 'w').write(KERNEL % (SRC, body))
    ll = os.path.join(d, 'kernel.ll')
    r = vfw.sh(['clang++-14', '-std=c++17', '-O1', '-fno-vectorize', '-fno-slp-vectorize', '-fno-unroll-loops', '-fno-exceptions', '-S', '-emit-llvm', kcpp, '-o', ll])
    if r.returncode != 0:
        raise vfw.FrameworkError('encoding not regenerable: key kernel does not compile: ' + r.stderr[:1500])
    text = open(ll).read()
    names = re.findall(r'^define [^@]*@(_Z9verif_keymm)\(', text, re.M)
    if not names:
        raise vfw.FrameworkError('key kernel function not found in IR')
    try:
        enc = ir2smt.Enc(text, names[0])
        head = ['(set-logic QF_BV)', '(set-option :produce-models true)']
        for v in ('a1', 'a2', 'b1', 'b2'):
            head.append('(declare-const %s (_ BitVec 64))' % v)
            head.append('(assert (= ((_ extract 2 0) %s) #b000))' % v)          # 8-byte aligned
            head.append('(assert (bvult %s (_ bv%d 64)))' % (v, 1 << 47))       # user space
            head.append('(assert (bvuge %s (_ bv4096 64)))' % v)
        l1, k1, w = enc.instantiate('ka', ['a1', 'a2'])
        l2, k2, _ = enc.instantiate('kb', ['b1', 'b2'])
        l3, k3, _ = enc.instantiate('kc', ['a2', 'a1'])
    except NotImplementedError as e:
        raise vfw.FrameworkError('key kernel not encodable by fw/ir2smt.py: %s' % e)
    fw.encoded['verif_key <- AnalyserModel::areEquivalentVariables key statements (sha1 %s)' % hashlib.sha1(body.encode()).hexdigest()[:10]] = 'key'
    same = '(and %s)' % ' '.join('(= %s %s)' % (x, y) for x, y in zip(k1, k2))
    sym = '(and %s)' % ' '.join('(= %s %s)' % (x, y) for x, y in zip(k1, k3))
    queries = {
        'key-injective': head + l1 + l2 + ['(assert (not (or (and (= a1 b1) (= a2 b2)) (and (= a1 b2) (= a2 b1)))))', '(assert %s)' % same,
                                        '(check-sat)', '(get-value (a1 a2 b1 b2))'],
        'key-symmetric': head + l1 + l3 + ['(assert (not %s))' % sym, '(check-sat)', '(get-value (a1 a2 b1 b2))'],
    }
    cap = 120 if fw.tier == 'quick' else 900
    for qn, lines in queries.items():
        path = os.path.join(d, qn + '.smt2')
        open(path, 'w').write('\n'.join(lines) + '\n')
        t0 = time.time()
        res = race([('z3', ['/usr/bin/z3']), ('cvc5', ['/usr/bin/cvc5', '--produce-models']), ('z3-new', ['z3-new'])], path, cap)
        wall = time.time() - t0
        verdicts = {k: v[0] for k, v in res.items()}
        definite = {k: v for k, v in verdicts.items() if v in ('sat', 'unsat')}
        ob = dict(label=qn + '[4 aligned addresses in 4096..2^47]', root=qn, model='ir2smt(kernel.ll)', wall=round(wall, 2), rss_kb=0, failed=[], unwind=None, unwindset=None,
                  kind='obligation', symbolic='four 64-bit addresses', backend='z3 4.8.12 / cvc5 1.0 / z3 5.1 on SMT-LIB from fw/ir2smt.py', portfolio=[(k, v[0], round(v[2], 1)) for k, v in res.items()])
        fw.solver_wall += sum(v[2] for v in res.values())
        if any(v == 'error' for v in verdicts.values()):
            fw.problems.append('%s: solver reported an error: %s' % (qn, {k: v[1][:200] for k, v in res.items() if v[0] == 'error'}))
            ob['status'] = 'ERROR'
        elif len(set(definite.values())) > 1:
            fw.problems.append('%s: solvers disagree: %s' % (qn, verdicts))
            ob['status'] = 'ERROR'
        elif not definite:
            fw.problems.append('%s: no solver answered within %ds (%s)' % (qn, cap, verdicts))
            ob['status'] = 'TIMEOUT'
        elif list(definite.values())[0] == 'unsat':
            ob['status'] = 'SUCCESS'
        else:
            ob['status'] = 'FAILURE'
            who = [k for k, v in definite.items() if v == 'sat'][0]
            vals = dict((m.group(1), int(m.group(2), 16) if m.group(2) else int(m.group(3), 2) if m.group(3) else int(m.group(4))) for m in
                        re.finditer(r'\((a1|a2|b1|b2) (?:#x([0-9a-fA-F]+)|#b([01]+)|\(_ bv(\d+) 64\))\)', res[who][1]))
            addrs = [vals.get(k, 0) for k in ('a1', 'a2', 'b1', 'b2')]
            ob['failed'] = [dict(msg=qn, inputs=addrs)]
            # replay: the same statements compiled by g++ for the real target
            rb = os.path.join(d, 'replay_' + qn)
            r = vfw.sh(['g++', '-std=c++17', '-O0', '-DREPLAY_MAIN', kcpp, '-o', rb])
            out = vfw.sh([rb] + [hex(a) for a in addrs]).stdout if r.returncode == 0 else ''
            reproduced = ('SAMEKEY 1' in out) if qn == 'key-injective' else ('SYMMETRIC 0' in out)
            fw.replays.append(dict(root=qn, inputs=[hex(a) for a in addrs], reproduced=reproduced, how='g++ build of the extracted statements: ' + out.strip()))
            if not reproduced:
                fw.problems.append('%s: model disagreement: solver model %s does not reproduce natively (%s)' % (qn, [hex(a) for a in addrs], out.strip()))
            else:
                what = 'two different pairs of variable addresses share a cache key' if qn == 'key-injective' else 'the cache key depends on the order of the two variables'
                rdir = os.environ.get('VERIF_REPLAY_DIR', os.path.join(vfw.VERIF, 'replays'))
                os.makedirs(rdir, exist_ok=True)
                path_r = os.path.join(rdir, 'C18-%s-%s.json' % (qn, hashlib.sha1(repr(addrs).encode()).hexdigest()[:8]))
                json.dump(dict(property='C18', kind='key', query=qn, addresses=[hex(a) for a in addrs], what=what, native=out.strip(), statements=body), open(path_r, 'w'), indent=1)
                fw.violations.append(dict(root=qn, msg=what, inputs=[hex(a) for a in addrs], replay=path_r, how=out.strip()))
                print('VIOLATION property=C18 replay=%s' % path_r, flush=True)
                fw.log('  violated: %s: %s' % (what, [hex(a) for a in addrs]))
        fw.log(qn, ob['status'], verdicts, '%.1fs' % wall)
        fw.obligations.append(ob)


def graph_obligations(fw):
    shapes = [(e, -1) for e in range(64)]
    for e in range(1, 64):
        bits = [k for k in range(6) if (e >> k) & 1]
        shapes += [(e, k) for k in (bits if fw.tier == 'thorough' else bits[:1])]
    fw.extra_cov['graph_shapes'] = len(shapes)
    witness_for = {(0b101011, -1), (0b111111, 2)}

    def one(sh):
        e, rm = sh
        defs = ['VSTD_STR_CAP=23', 'VSTD_VEC_CAP=4', 'EDGES=%d' % e, 'REMOVE=%d' % rm]
        name = 'g%d_%d' % (e, rm + 1)
        m = fw.build_model(name, HG, ['h_graph'], defines=defs)
        us = fw.unwindset(m, 'h_graph', [(r'^h_graph', 70)])
        r = fw.cbmc(m, 'h_graph', unwind=7, unwindset=us, timeout=600, label='h_graph[edges=%s,remove=%d]' % (format(e, '06b'), rm),
                    symbolic='the queried pair (16 values); graph shape fixed per query')
        if r['status'] != 'SUCCESS':
            fw.log('h_graph', e, rm, r['status'], [f['msg'] for f in r['failed']][:3])
        fw.handle(r, HG, defs)
        if sh in witness_for:
            mw = fw.build_model(name + 'w', HG, ['h_graph'], defines=defs + ['WITNESS'])
            fw.witness(mw, 'h_graph', unwind=7, unwindset=us, timeout=600, label='witness:h_graph[%d,%d]' % (e, rm))
            fw.differential(m, 'h_graph', HG, vectors=[[i, j] for i in range(4) for j in range(4)], defines=defs)
        import shutil
        shutil.rmtree(m.dir, ignore_errors=True)
    vfw.pmap(one, shapes, 14)
    fw.log('graph shapes done:', len(shapes))
    # expired entries: a destroyed equivalent variable before / between / after the live ones, then one removal
    def exp(when):
        defs = ['VSTD_STR_CAP=23', 'VSTD_VEC_CAP=4', 'WHEN=%d' % when]
        m = fw.build_model('gexp%d' % when, HG, ['h_expired'], defines=defs)
        us = fw.unwindset(m, 'h_expired', vfw.std_rules())
        r = fw.cbmc(m, 'h_expired', unwind=7, unwindset=us, timeout=900, label='h_expired[destroyed variable at position %d]' % when, symbolic='which equivalence is removed')
        if r['status'] != 'SUCCESS':
            fw.log('h_expired', when, r['status'], r['wall'], [(f['msg'], f['inputs']) for f in r['failed']][:3])
        fw.handle(r, HG, defs, best_effort=(when == 1))
        if when == 0:
            mw = fw.build_model('gexpw', HG, ['h_expired'], defines=defs + ['WITNESS'])
            fw.witness(mw, 'h_expired', unwind=7, unwindset=us, timeout=900, label='witness:h_expired')
        fw.differential(m, 'h_expired', HG, vectors=[[0], [1]], defines=defs)
    if fw.tier == 'thorough':
        # 10-15 min per position: thorough tier only (position 1 has exhausted 12 GB once: attempted, not required)
        vfw.pmap(exp, [0, 1, 2], 3)


def run(fw):
    fw.assumptions += ['addresses: 8-byte aligned, 4096 <= a < 2^47 (x86-64 user space); no further bound on the key query',
                       'h_cache: utilities.cpp:areEquivalentVariables is replaced by an oracle for two scripted pairs (the graph search itself is checked by h_graph)',
                       'h_graph: 4 variables; every subset of the 6 possible equivalences (one query per subset), one removal; the queried pair is symbolic', 'h_expired: weak-pointer expiry is modelled (no-destroy mode: the object expires, its destructor is not run; Variable has no destructor side effects)']
    key_obligations(fw)
    # the real memoised function, addresses symbolic
    defs = ['VSTD_STR_CAP=23']
    m = fw.build_model('c18c', HC, ['h_cache'], sources=[], defines=defs)
    mw = fw.build_model('c18cw', HC, ['h_cache'], sources=[], defines=defs + ['WITNESS'])
    r = fw.cbmc(m, 'h_cache', unwind=6, timeout=300 if fw.tier == 'quick' else 1200, label='h_cache[two scripted pairs, 4 symbolic addresses]', symbolic='four 47-bit addresses, two graph answers')
    fw.log('h_cache', r['status'], r['wall'], [f['msg'] for f in r['failed']][:4])
    fw.handle(r, HC, defs)
    fw.witness(mw, 'h_cache', unwind=6, timeout=300, label='witness:h_cache')
    fw.differential(m, 'h_cache', HC, seeds=40, defines=defs)
    graph_obligations(fw)
