"""C19 - model repair helpers establish what they promise."""
import vfw

H = 'c19/h_c19.cpp'
POS = {0: 'siblings', 1: 'parent and child', 2: 'encapsulated siblings', 3: 'sibling plus child', 4: 'grandparent/grandchild (unreachable)', 5: 'parentless variable', 6: 'cousins (unreachable)', 7: 'sibling + child + parentless', 8: 'sibling + child + unreachable grandchild'}
HOW = {0: 'no units', 1: 'by name', 2: "the model's own object", 3: 'object of another model', 4: 'standard unit', 5: 'stand-alone object with a unit child'}


def run(fw):
    fw.assumptions += ['fixVariableInterfaces: 9 relative positions of the connected components (one query each); the pre-existing interface of each of the 3 variables is symbolic over {unset, none, public, private, public_and_private, invalid string}',
                       'oracle for "sufficient interface": the CellML 2.0 rule (public towards siblings and the parent, private towards children) written in the harness, not the validator code (validator.cpp needs libxml2)',
                       'linkUnits: 6 ways of naming units (one query each), units names symbolic over two letters; clean: emptiness of name/id/math/variable/unit child of two components and one units symbolic',
                       'outside: deeper hierarchies, more than 3 connected variables, imported units/components']
    # HOW=1/5 (a stand-alone units object named by a symbolic string) send the symbolic name through the standard-units table:
    # no verdict within 20 min (measured); attempted as best effort in the thorough tier only
    hows = [h for h in HOW if h not in (1, 5) or fw.tier == 'thorough']
    jobs = [('h_fix_interfaces', ['POS=%d' % p], 'position: ' + POS[p]) for p in POS] + [('h_link_units', ['HOW=%d' % h], 'units given ' + HOW[h]) for h in hows] + [('h_link_units_tree', [], 'two siblings and a nested component; which variables hold unlinkable units is symbolic')] + [('h_clean', [], '9 emptiness flags, second child empty'), ('h_clean', ['C3NAMED'], '9 emptiness flags, second child named')]
    wit = {('h_fix_interfaces', 'POS=3'), ('h_link_units', 'HOW=4'), ('h_clean', '')}

    def one(j):
        root, extra, what = j
        defs = ['VSTD_STR_CAP=23', 'VSTD_VEC_CAP=4'] + extra
        name = 'c19_%s_%s' % (root, ''.join(extra).replace('=', ''))
        m = fw.build_model(name, H, [root], defines=defs)
        us = fw.unwindset(m, root, vfw.std_rules(string=20, extra=[(r'6appendEPKc', 130)]))
        lab = '%s[%s]' % (root, what)
        fw.differential(m, root, H, seeds=25, defines=defs, vectors=([[a, b, c] for a in (0, 1) for b in (0, 1) for c in (0, 1)] if root == 'h_link_units_tree' else ()))   # cheap, and shows real-library failures even if the solver gives up
        if root == 'h_link_units_tree' and fw.tier == 'quick':
            return   # differential only: the solver has no verdict on the three-component tree within 900 s (attempted in the thorough tier)
        r = fw.cbmc(m, root, unwind=6, unwindset=us, timeout=900, label=lab, symbolic='interface attributes / unit names / emptiness flags')
        if r['status'] != 'SUCCESS':
            fw.log(lab, r['status'], r['wall'], [(f['msg'], f['inputs']) for f in r['failed']][:4])
        fw.handle(r, H, defs, best_effort=(extra in (['HOW=1'], ['HOW=5']) or root == 'h_link_units_tree'))
        if (root, ''.join(extra)) in wit:
            mw = fw.build_model(name + 'w', H, [root], defines=defs + ['WITNESS'])
            fw.witness(mw, root, unwind=6, unwindset=us, timeout=1200, label='witness:' + lab)
    vfw.pmap(one, jobs, 14)
