#!/usr/bin/env python3
"""Run the repository's own test-suite (guard OFF: the normal cmake build in /repo/_build) and compare with /root/.vp/BASELINE.json."""
import glob, json, os, subprocess, sys, tempfile
from concurrent.futures import ThreadPoolExecutor
REPO = os.environ.get('VERIF_REPO', '/repo')
BUILD = os.path.join(REPO, '_build')


def main():
    if not os.path.exists(os.path.join(BUILD, 'build.ninja')):
        r = subprocess.run(['cmake', '-G', 'Ninja', '-B', BUILD, '-S', REPO], capture_output=True, text=True)
        if r.returncode != 0:
            print(r.stdout[-2000:], r.stderr[-2000:])
            return 2
    r = subprocess.run(['cmake', '--build', BUILD], capture_output=True, text=True)
    if r.returncode != 0:
        print('BUILD FAILED\n', r.stdout[-3000:], r.stderr[-2000:])
        return 2
    bins = sorted(glob.glob(os.path.join(BUILD, 'tests', 'test_*')))
    bins = [b for b in bins if os.access(b, os.X_OK) and os.path.isfile(b)]
    passed, failed = set(), set()

    def run(b):
        with tempfile.NamedTemporaryFile(suffix='.json', delete=False) as tf:
            pass
        subprocess.run([b, '--gtest_output=json:' + tf.name], capture_output=True, text=True, cwd=os.path.dirname(b), timeout=900)
        try:
            j = json.load(open(tf.name))
        except Exception:
            return b, None
        finally:
            os.unlink(tf.name)
        return b, j
    with ThreadPoolExecutor(8) as ex:
        for b, j in ex.map(run, bins):
            if j is None:
                print('no result from', b)
                continue
            for ts in j.get('testsuites', []):
                for t in ts.get('testsuite', []):
                    name = '%s::%s' % (ts['name'], t['name'])
                    (failed if t.get('failures') else passed).add(name)
    # ctest-level results (one per registered test; the baseline lists them as name::name)
    with tempfile.NamedTemporaryFile(suffix='.xml', delete=False) as tf:
        pass
    subprocess.run(['ctest', '--test-dir', BUILD, '-j8', '--timeout', '900', '--output-junit', tf.name], capture_output=True, text=True)
    import xml.etree.ElementTree as ET
    try:
        for tc in ET.parse(tf.name).getroot().iter('testcase'):
            bad = tc.find('failure') is not None or tc.find('error') is not None or tc.get('status') in ('fail', 'notrun')
            (failed if bad else passed).add('%s::%s' % (tc.get('name'), tc.get('name')))
    finally:
        os.unlink(tf.name)
    base = json.load(open('/root/.vp/BASELINE.json'))
    stable = set(base['stable_pass'])
    missing = sorted(stable - passed)
    print('passed %d failed %d; baseline stable %d; stable tests not passing now: %d' % (len(passed), len(failed), len(stable), len(missing)))
    for m in missing[:40]:
        print('  NOT PASSING:', m)
    return 0 if not missing else 1


if __name__ == '__main__':
    sys.exit(main())
