
#ifndef LIBCELLML_EXPORT_H
#define LIBCELLML_EXPORT_H

#ifdef LIBCELLML_STATIC_DEFINE
#  define LIBCELLML_EXPORT
#  define LIBCELLML_NO_EXPORT
#else
#  ifndef LIBCELLML_EXPORT
#    ifdef cellml_EXPORTS
        /* We are building this library */
#      define LIBCELLML_EXPORT __attribute__((visibility("default")))
#    else
        /* We are using this library */
#      define LIBCELLML_EXPORT __attribute__((visibility("default")))
#    endif
#  endif

#  ifndef LIBCELLML_NO_EXPORT
#    define LIBCELLML_NO_EXPORT __attribute__((visibility("hidden")))
#  endif
#endif

#ifndef LIBCELLML_DEPRECATED
#  define LIBCELLML_DEPRECATED __attribute__ ((__deprecated__))
#endif

#ifndef LIBCELLML_DEPRECATED_EXPORT
#  define LIBCELLML_DEPRECATED_EXPORT LIBCELLML_EXPORT LIBCELLML_DEPRECATED
#endif

#ifndef LIBCELLML_DEPRECATED_NO_EXPORT
#  define LIBCELLML_DEPRECATED_NO_EXPORT LIBCELLML_NO_EXPORT LIBCELLML_DEPRECATED
#endif

/* NOLINTNEXTLINE(readability-avoid-unconditional-preprocessor-if) */
#if 0 /* DEFINE_NO_DEPRECATED */
#  ifndef LIBCELLML_NO_DEPRECATED
#    define LIBCELLML_NO_DEPRECATED
#  endif
#endif

#endif /* LIBCELLML_EXPORT_H */
