#!/usr/bin/env python3
"""ir2c: translate the LLVM-14 textual IR that clang emits for libcellml + vstd into plain C for CBMC.

usage: ir2c.py in.ll out.c --root fn [--root fn ...]
Only code reachable from the roots (plus the static initialisers of the globals they use) is emitted.
"""
import re
import sys

# ---------------------------------------------------------------- lexer

TOK = re.compile(r'''
    \s+
  | (?P<str>c?"(?:[^"\\]|\\.)*")
  | (?P<id>[%@][-a-zA-Z$._0-9]+|[%@]"(?:[^"\\]|\\.)*")
  | (?P<num>-?\d+\.\d*(?:e[+-]?\d+)?|0x[0-9A-Fa-f]+|-?\d+)
  | (?P<word>[a-zA-Z_][a-zA-Z_0-9.]*)
  | (?P<meta>![a-zA-Z_0-9.]*)
  | (?P<comdat>\$[-a-zA-Z$._0-9]+|\$"[^"]*")
  | (?P<attr>\#\d+)
  | (?P<dots>\.\.\.)
  | (?P<p>[=,(){}\[\]<>*:])
''', re.X)


def lex(s):
    out = []
    i = 0
    n = len(s)
    while i < n:
        if s[i] == ';':
            break
        m = TOK.match(s, i)
        if not m:
            raise SyntaxError('lex error at %r' % s[i:i + 40])
        i = m.end()
        k = m.lastgroup
        if k is None:
            continue
        out.append((k, m.group(k)))
    return out


class P:
    def __init__(self, toks):
        self.t = toks
        self.i = 0

    def peek(self, k=0):
        return self.t[self.i + k] if self.i + k < len(self.t) else ('eof', '')

    def next(self):
        x = self.peek()
        self.i += 1
        return x

    def accept(self, v):
        if self.peek()[1] == v:
            self.i += 1
            return True
        return False

    def expect(self, v):
        x = self.next()
        if x[1] != v:
            raise SyntaxError('expected %r got %r in %r' % (v, x, ' '.join(a[1] for a in self.t)[:300]))

    def eof(self):
        return self.i >= len(self.t)


# ---------------------------------------------------------------- types
# ('int',n) ('ptr',T) ('named',name) ('struct',(fields...),packed) ('array',n,T) ('func',ret,(params...),vararg)
# ('void',) ('double',) ('float',) ('label',) ('metadata',)

PARAM_ATTRS = {'noundef', 'nonnull', 'nocapture', 'readonly', 'writeonly', 'noalias', 'zeroext', 'signext', 'returned',
               'immarg', 'readnone', 'nofree', 'inreg', 'nest', 'swiftself', 'noreturn'}


def parse_type(p):
    k, v = p.next()
    if v == 'void':
        t = ('void',)
    elif v == 'double':
        t = ('double',)
    elif v == 'float':
        t = ('float',)
    elif v == 'label':
        t = ('label',)
    elif v == 'metadata':
        t = ('metadata',)
    elif v == 'opaque':
        t = ('opaque',)
    elif k == 'word' and re.fullmatch(r'i\d+', v):
        t = ('int', int(v[1:]))
    elif k == 'id' and v[0] == '%':
        t = ('named', v)
    elif v == '{':
        fs = []
        if not p.accept('}'):
            while True:
                fs.append(parse_type(p))
                if p.accept('}'):
                    break
                p.expect(',')
        t = ('struct', tuple(fs), False)
    elif v == '<':
        if p.peek()[1] == '{':
            p.next()
            fs = []
            if not p.accept('}'):
                while True:
                    fs.append(parse_type(p))
                    if p.accept('}'):
                        break
                    p.expect(',')
            p.expect('>')
            t = ('struct', tuple(fs), True)
        else:
            n = int(p.next()[1])
            p.expect('x')
            e = parse_type(p)
            p.expect('>')
            t = ('vec', n, e)
    elif v == '[':
        n = int(p.next()[1])
        p.expect('x')
        e = parse_type(p)
        p.expect(']')
        t = ('array', n, e)
    else:
        raise SyntaxError('type? %r' % ((k, v),))
    while True:
        if p.accept('*'):
            t = ('ptr', t)
        elif p.peek()[1] == '(' and t[0] != 'label':
            p.next()
            ps = []
            va = False
            if not p.accept(')'):
                while True:
                    if p.peek()[0] == 'dots':
                        p.next()
                        va = True
                    else:
                        ps.append(parse_type(p))
                        skip_param_attrs(p)
                    if p.accept(')'):
                        break
                    p.expect(',')
            t = ('func', t, tuple(ps), va)
        else:
            return t


def skip_param_attrs(p):
    """skips parameter attributes; returns dict with sret/byval types if present"""
    info = {}
    while True:
        k, v = p.peek()
        if k == 'word' and v in PARAM_ATTRS:
            p.next()
        elif k == 'word' and v in ('align', 'dereferenceable', 'dereferenceable_or_null'):
            p.next()
            if p.accept('('):
                p.next()
                p.expect(')')
            else:
                p.next()
        elif k == 'word' and v in ('sret', 'byval', 'byref', 'preallocated', 'inalloca', 'elementtype'):
            p.next()
            p.expect('(')
            info[v] = parse_type(p)
            p.expect(')')
        else:
            return info


# ---------------------------------------------------------------- values
# ('local',name) ('global',name) ('int',n) ('null',) ('undef',) ('zero',) ('float',text) ('bool',b)
# ('cstr',bytes) ('agg',[ (T,V) ]) ('cexpr',op,...)

CAST_OPS = {'bitcast', 'ptrtoint', 'inttoptr', 'trunc', 'zext', 'sext', 'addrspacecast', 'sitofp', 'uitofp', 'fptosi', 'fptoui',
            'fpext', 'fptrunc'}
BIN_OPS = {'add', 'sub', 'mul', 'and', 'or', 'xor', 'shl', 'lshr', 'ashr', 'udiv', 'sdiv', 'urem', 'srem'}


def parse_value(p, ty):
    k, v = p.next()
    if k == 'id':
        return ('local', v) if v[0] == '%' else ('global', v)
    if k == 'num':
        if ty[0] in ('double', 'float'):
            return ('float', v)
        return ('int', int(v, 0))
    if v == 'null':
        return ('null',)
    if v in ('undef', 'poison'):
        return ('undef',)
    if v == 'zeroinitializer':
        return ('zero',)
    if v == 'true':
        return ('int', 1)
    if v == 'false':
        return ('int', 0)
    if k == 'str' and v[0] == 'c':
        return ('cstr', decode_cstr(v[2:-1]))
    if v == '{' or v == '[' or v == '<':
        close = {'{': '}', '[': ']', '<': '>'}[v]
        packed = False
        if v == '<' and p.peek()[1] == '{':
            p.next()
            packed = True
            close = '}'
        items = []
        if not p.accept(close):
            while True:
                t = parse_type(p)
                items.append((t, parse_value(p, t)))
                if p.accept(close):
                    break
                p.expect(',')
        if packed:
            p.expect('>')
        return ('agg', items)
    if v == 'getelementptr':
        p.accept('inbounds')
        p.expect('(')
        bt = parse_type(p)
        p.expect(',')
        pt = parse_type(p)
        pv = parse_value(p, pt)
        idx = []
        while p.accept(','):
            p.accept('inrange')
            it = parse_type(p)
            idx.append((it, parse_value(p, it)))
        p.expect(')')
        return ('cexpr', 'gep', bt, (pt, pv), idx)
    if v in CAST_OPS:
        p.expect('(')
        ft = parse_type(p)
        fv = parse_value(p, ft)
        p.expect('to')
        tt = parse_type(p)
        p.expect(')')
        return ('cexpr', 'cast', v, (ft, fv), tt)
    if v in BIN_OPS:
        while p.peek()[1] in ('nuw', 'nsw', 'exact'):
            p.next()
        p.expect('(')
        t1 = parse_type(p)
        v1 = parse_value(p, t1)
        p.expect(',')
        t2 = parse_type(p)
        v2 = parse_value(p, t2)
        p.expect(')')
        return ('cexpr', 'bin', v, (t1, v1), (t2, v2))
    raise SyntaxError('value? %r' % ((k, v),))


def decode_cstr(s):
    out = bytearray()
    i = 0
    while i < len(s):
        if s[i] == '\\':
            if s[i + 1] == '\\':
                out.append(92)
                i += 2
            else:
                out.append(int(s[i + 1:i + 3], 16))
                i += 3
        else:
            out.append(ord(s[i]))
            i += 1
    return bytes(out)


# ---------------------------------------------------------------- module

class Func:
    pass


class Module:
    def __init__(self):
        self.types = {}
        self.globals = {}  # name -> dict(type, init, const, external)
        self.funcs = {}  # name -> Func
        self.ctors = []


LINKAGE = {'private', 'internal', 'available_externally', 'linkonce', 'weak', 'common', 'appending', 'extern_weak',
           'linkonce_odr', 'weak_odr', 'external', 'dso_local', 'dso_preemptable', 'default', 'hidden', 'protected',
           'unnamed_addr', 'local_unnamed_addr', 'thread_local', 'fastcc', 'ccc', 'noundef', 'zeroext', 'signext',
           'nonnull', 'noalias', 'externally_initialized'}


def skip_ret_attrs(p):
    while True:
        k, v = p.peek()
        if k == 'word' and v in LINKAGE:
            p.next()
        elif k == 'word' and v in ('align', 'dereferenceable', 'dereferenceable_or_null'):
            p.next()
            if p.accept('('):
                p.next()
                p.expect(')')
            else:
                p.next()
        else:
            return


def resolve_aliases(text):
    al = {}
    keep = []
    for ln in text.split('\n'):
        mm = re.match(r'^(@(?:[-a-zA-Z$._0-9]+|"[^"]*")) = .*\balias\b.*?(@(?:[-a-zA-Z$._0-9]+|"[^"]*"))\s*$', ln)
        if mm:
            al[mm.group(1)] = mm.group(2)
        else:
            keep.append(ln)
    text = '\n'.join(keep)
    if al:
        def sub(mm):
            n = mm.group(0)
            while n in al:
                n = al[n]
            return n
        text = re.sub(r'@(?:[-a-zA-Z$._0-9]+|"(?:[^"\\]|\\.)*")', sub, text)
    return text


def parse_module(text):
    m = Module()
    text = resolve_aliases(text)
    lines = text.split('\n')
    i = 0
    while i < len(lines):
        ln = lines[i]
        i += 1
        if not ln or ln[0] in ';!' or ln.startswith('source_filename') or ln.startswith('target ') or ln.startswith('attributes ') or ln.startswith('$'):
            continue
        if ln[0] == '%':
            p = P(lex(ln))
            name = p.next()[1]
            p.expect('=')
            p.expect('type')
            m.types[name] = parse_type(p)
        elif ln[0] == '@':
            p = P(lex(ln))
            name = p.next()[1]
            p.expect('=')
            skip_ret_attrs(p)
            external = 'external' in ln.split('=', 1)[1].split('global')[0].split('constant')[0]
            kw = p.next()[1]
            if kw not in ('global', 'constant'):
                raise SyntaxError('global? ' + ln[:200])
            ty = parse_type(p)
            init = None
            if not p.eof() and p.peek()[1] != ',':
                init = parse_value(p, ty)
            m.globals[name] = dict(type=ty, init=init, const=(kw == 'constant'), external=(init is None))
        elif ln.startswith('declare') or ln.startswith('define'):
            p = P(lex(ln))
            p.next()
            skip_ret_attrs(p)
            ret = parse_type_noparen(p)
            skip_ret_attrs(p)
            name = p.next()[1]
            p.expect('(')
            params = []
            va = False
            if not p.accept(')'):
                while True:
                    if p.peek()[0] == 'dots':
                        p.next()
                        va = True
                    else:
                        pt = parse_type(p)
                        info = skip_param_attrs(p)
                        pn = None
                        if p.peek()[0] == 'id':
                            pn = p.next()[1]
                        params.append((pt, pn, info))
                    if p.accept(')'):
                        break
                    p.expect(',')
            f = Func()
            f.name = name
            f.ret = ret
            f.params = params
            f.vararg = va
            f.blocks = None
            if ln.startswith('define'):
                f.blocks = []
                cur = None
                while True:
                    b = lines[i]
                    i += 1
                    if b == '}':
                        break
                    if not b.strip():
                        continue
                    mm = re.match(r'^([-a-zA-Z$._0-9]+|"[^"]*"):', b)
                    if mm and not b.startswith(' '):
                        cur = ('%' + mm.group(1), [])
                        f.blocks.append(cur)
                        continue
                    if cur is None:
                        cur = ('%' + str(len(params)), [])  # implicit entry label
                        f.blocks.append(cur)
                    s = b.strip()
                    if s.startswith('switch '):
                        while not (lines[i - 1].rstrip().endswith(']') or lines[i - 1].strip().startswith(']')):
                            s += ' ' + lines[i].strip().split(', !')[0]
                            i += 1
                    cur[1].append(s)
            m.funcs[name] = f
    return m


def parse_type_noparen(p):
    """return type: a type that must not swallow the '(' of the parameter list"""
    # parse base type then only '*' suffixes, except function pointer returns which are rare: handle "T (..)*"
    save = p.i
    t = parse_type(p)
    # if we consumed a function type whose following token is not an @name, fine; otherwise back off
    if p.peek()[0] != 'id' or p.peek()[1][0] != '@':
        # over-consumed: re-parse conservatively
        p.i = save
        t = parse_base_and_stars(p)
    return t


def parse_base_and_stars(p):
    # parse a type but stop before '(' that directly precedes nothing-but-params of the function itself
    # strategy: parse type with paren-consumption disabled at top level
    k, v = p.peek()
    # temporarily parse atom
    start = p.i
    t = None
    # atom
    sub = P(p.t)
    sub.i = start
    k, v = sub.next()
    if v in ('void', 'double', 'float'):
        t = (v,)
    elif k == 'word' and re.fullmatch(r'i\d+', v):
        t = ('int', int(v[1:]))
    elif k == 'id':
        t = ('named', v)
    elif v in ('{', '[', '<'):
        sub.i = start
        # aggregate atoms never contain top-level '(' issue; parse fully but then strip trailing func part
        depth = 0
        j = start
        while True:
            tv = p.t[j][1]
            if tv in '{[<':
                depth += 1
            elif tv in '}]>':
                depth -= 1
                if depth == 0:
                    break
            j += 1
        sub2 = P(p.t[start:j + 1])
        t = parse_type(sub2)
        sub.i = j + 1
    while sub.accept('*'):
        t = ('ptr', t)
    p.i = sub.i
    return t


# ---------------------------------------------------------------- C emission

LIBC_RENAME = {'strtol': '__vrt_strtol', 'strtoll': '__vrt_strtol', 'strtoul': '__vrt_strtoul', 'strtoull': '__vrt_strtoul', 'strtod': '__vrt_strtod',
               '__errno_location': '__vrt_errno_location', 'atoi': '__vrt_atoi'}


def cid(name):
    if name[1:] in LIBC_RENAME:
        return LIBC_RENAME[name[1:]]
    s = name[1:]
    if s.startswith('"'):
        s = s[1:-1]
    s = re.sub(r'[^a-zA-Z0-9_]', lambda mm: '_%02x' % ord(mm.group(0)), s)
    return s


class Emitter:
    def __init__(self, m):
        self.m = m
        self.anon = {}
        self.anon_order = []
        self.out = []
        self.struct_done = set()
        self.dyncasts = {}
        self.reach = set()
        self.check_msgs = []
        self.idx_helpers = {}
        self.nullchecks = True

    # ---- RTTI / vtables (Itanium ABI), resolved statically from the IR constants
    def build_rtti(self):
        m = self.m
        self.ti = {}  # typeinfo global -> list of (base typeinfo global, offset)
        def strip(v):
            while v[0] == 'cexpr' and v[1] in ('cast', 'gep'):
                v = v[3][1]
            return v
        for n, g in m.globals.items():
            if not cid(n).startswith('_ZTI') or g['init'] is None or g['init'][0] != 'agg':
                continue
            items = g['init'][1]
            kind = cid(strip(items[0][1])[1])
            bases = []
            if 'si_class' in kind:
                bases.append((strip(items[2][1])[1], 0))
            elif 'vmi_class' in kind:
                cnt = items[3][1][1]
                for i in range(cnt):
                    b = strip(items[4 + 2 * i][1])[1]
                    of = items[5 + 2 * i][1][1]
                    bases.append((b, of >> 8))
            self.ti[n] = bases
        self.aps = []  # address points: (vtable global, sub index, class typeinfo, offset_of_subobject, [entries])
        for n, g in m.globals.items():
            if not cid(n).startswith('_ZTV') or g['init'] is None or cid(n).startswith('_ZTVN10__cxxabiv1'):
                continue
            for si, (st, sv) in enumerate(g['init'][1]):
                ents = sv[1]
                ott = ents[0][1]
                off = 0
                if ott[0] == 'cexpr':  # inttoptr (i64 -N to i8*)
                    off = ott[3][1][1]
                    if off >= 1 << 63:
                        off -= 1 << 64
                tinfo = strip(ents[1][1])
                fns = []
                for et, ev in ents[2:]:
                    x = strip(ev)
                    fns.append(x[1] if x[0] == 'global' else None)
                self.aps.append((n, si, tinfo[1] if tinfo[0] == 'global' else None, -off, fns))

    def ti_find(self, ti, dst, off=0):
        if ti == dst:
            return off
        for b, o in self.ti.get(ti, []):
            r = self.ti_find(b, dst, off + o)
            if r is not None:
                return r
        return None

    def dyncast_fn(self, dst):
        """C function casting to typeinfo dst by comparing the object's vptr with every address point"""
        name = '__vrt_dyncast_' + cid(dst)
        if name in self.dyncasts:
            return name
        lines = ['static uint8_t *%s(uint8_t *src)\n{' % name, '  if (src == 0) return 0;', '  uint8_t *vp = *(uint8_t **)src;']
        for (vt, si, cls, suboff, fns) in self.aps:
            if vt not in self.reach:
                continue
            r = self.ti_find(cls, dst)
            ap = '(uint8_t *)&%s.f%d[2]' % (cid(vt), si)
            if r is None:
                lines.append('  if (vp == %s) return 0;' % ap)
            else:
                lines.append('  if (vp == %s) return src + (%d);' % (ap, r - suboff))
        lines.append('  __vrt_unreachable();\n  return 0;\n}')
        self.dyncasts[name] = '\n'.join(lines)
        return name

    # ---- types
    def resolve(self, t):
        while t[0] == 'named':
            t = self.m.types[t[1]]
        return t

    def ctype(self, t, decl=''):
        """C declarator for type t wrapped around decl"""
        k = t[0]
        if k == 'int':
            n = t[1]
            if n == 1:
                base = '_Bool'
            elif n <= 8:
                base = 'uint8_t'
            elif n <= 16:
                base = 'uint16_t'
            elif n <= 32:
                base = 'uint32_t'
            elif n <= 64:
                base = 'uint64_t'
            else:
                base = 'unsigned __int128'
            return (base + ' ' + decl).strip()
        if k == 'void':
            return ('void ' + decl).strip()
        if k == 'double':
            return ('double ' + decl).strip()
        if k == 'float':
            return ('float ' + decl).strip()
        if k == 'named':
            if self.m.types[t[1]][0] == 'opaque':
                return ('struct T_' + cid(t[1]) + ' ' + decl).strip()
            return ('struct T_' + cid(t[1]) + ' ' + decl).strip()
        if k == 'struct':
            return ('struct ' + self.anon_name(t) + ' ' + decl).strip()
        if k == 'ptr':
            e = t[1]
            if e[0] in ('func', 'array'):
                return self.ctype(e, '(*' + decl + ')')
            return self.ctype(e, '*' + decl)
        if k == 'array':
            return self.ctype(t[2], decl + '[%d]' % max(t[1], 1))
        if k == 'func':
            ps = ', '.join(self.ctype(x) for x in t[2])
            if t[3]:
                ps = (ps + ', ...') if ps else ''
            elif not ps:
                ps = 'void'
            return self.ctype(t[1], decl + '(' + ps + ')')
        if k == 'opaque':
            return ('void ' + decl).strip()
        raise NotImplementedError(t)

    def sizeof(self, t):
        """size in bytes of an LLVM type under the x86-64 data layout (natural alignment), or -1 if unknown"""
        def sa(t):
            r = self.resolve(t)
            k = r[0]
            if k == 'int':
                n = max(1, (r[1] + 7) // 8)
                return n, min(n, 8) if n in (1, 2, 4, 8) else 8
            if k == 'ptr':
                return 8, 8
            if k == 'double':
                return 8, 8
            if k == 'float':
                return 4, 4
            if k == 'array':
                s1, a1 = sa(r[2])
                return s1 * r[1], a1
            if k == 'struct':
                off, al = 0, 1
                for f in r[1]:
                    s1, a1 = sa(f)
                    if not r[2]:
                        off = (off + a1 - 1) // a1 * a1
                        al = max(al, a1)
                    off += s1
                if not r[2]:
                    off = (off + al - 1) // al * al
                return off, al
            raise NotImplementedError(r)
        try:
            return sa(t)[0]
        except NotImplementedError:
            return -1

    def contains_array(self, t, depth=0):
        r = self.resolve(t)
        if r[0] == 'array':
            return True
        if r[0] == 'struct' and depth < 12:
            return any(self.contains_array(f, depth + 1) for f in r[1])
        return False

    def idx_helper(self, arr):
        key = repr(arr)
        if key not in self.idx_helpers:
            nm = 'vrt_idx_%d' % len(self.idx_helpers)
            et = self.ctype(arr[2])
            lines = ['static inline %s *%s(%s, int64_t i)\n{' % (et, nm, self.ctype(('ptr', arr), 'a'))]
            for k in range(arr[1] + 1):
                lines.append('  if (i == %d) return &(*a)[%d];' % (k, k))
            lines.append('  return &(*a)[i];\n}')
            self.idx_helpers[key] = (nm, '\n'.join(lines))
        return self.idx_helpers[key][0]

    def first_member_path(self, src, dst, depth=0):
        """if type dst is reached from src by repeatedly taking the first struct member, return the C member path"""
        path = []
        cur = src
        for _ in range(8):
            if cur == dst or (cur[0] == 'named' and dst[0] == 'named' and cur[1] == dst[1]):
                return '.'.join(path) if path else None
            r = self.resolve(cur)
            if r[0] != 'struct' or not r[1]:
                return None
            if self.resolve(dst) == r and cur[0] != 'named' and dst[0] != 'named':
                return '.'.join(path) if path else None
            path.append('f0')
            cur = r[1][0]
        return None

    def anon_name(self, t):
        if t not in self.anon:
            self.anon[t] = 'A%d' % len(self.anon)
            self.anon_order.append(t)
        return self.anon[t]

    def emit_struct_defs(self, used_named):
        """emit struct definitions in dependency order"""
        lines = []
        done = set()
        visiting = set()

        def need(t):
            k = t[0]
            if k == 'named':
                define(('named', t[1]))
            elif k == 'struct':
                define(t)
            elif k == 'array':
                need(t[2])
            # pointers need only forward declarations

        def define(t):
            key = t
            if key in done:
                return
            if key in visiting:
                raise RuntimeError('recursive by-value struct %r' % (t,))
            visiting.add(key)
            body = self.m.types[t[1]] if t[0] == 'named' else t
            if body[0] == 'opaque':
                done.add(key)
                visiting.discard(key)
                return
            for f in body[1]:
                need(f)
            nm = ('T_' + cid(t[1])) if t[0] == 'named' else self.anon_name(t)
            fl = []
            for i, f in enumerate(body[1]):
                fl.append('  ' + self.ctype(f, 'f%d' % i) + ';')
            if not fl:
                fl.append('  uint8_t empty_;')
            lines.append('struct %s {\n%s\n}%s;' % (nm, '\n'.join(fl), ' __attribute__((packed))' if body[2] else ''))
            done.add(key)
            visiting.discard(key)

        fwd = []
        for n in self.m.types:
            fwd.append('struct T_%s;' % cid(n))
        # anon structs may be discovered while emitting; iterate until stable
        for n in list(self.m.types):
            define(('named', n))
        i = 0
        while i < len(self.anon_order):
            define(self.anon_order[i])
            i += 1
        fwd2 = ['struct %s;' % self.anon[t] for t in self.anon_order]
        return '\n'.join(fwd + fwd2 + lines)

    # ---- constants
    def const(self, t, v):
        """C expression for constant v of type t (usable in static initialisers)"""
        k = v[0]
        rt = self.resolve(t)
        if k == 'int':
            if rt[0] == 'int':
                n = rt[1]
                val = v[1] & ((1 << n) - 1)
                return '%dU' % val if n <= 32 else '%dULL' % val
            return str(v[1])
        if k == 'float':
            s = v[1]
            if s.startswith('0x'):
                bits = int(s, 16)
                import struct
                d = struct.unpack('<d', struct.pack('<Q', bits))[0]
                if d != d:
                    return '__builtin_nan("")'
                if d in (float('inf'), float('-inf')):
                    return ('-' if d < 0 else '') + '__builtin_huge_val()'
                return d.hex()
            return s
        if k == 'null':
            return '0'
        if k in ('undef', 'zero'):
            if rt[0] in ('struct', 'array'):
                return '{0}'
            return '0'
        if k == 'cstr':
            return '{' + ','.join(str(b) for b in v[1]) + '}'
        if k == 'agg':
            return '{' + ', '.join(self.const(it, iv) for it, iv in v[1]) + '}'
        if k == 'global':
            nm = cid(v[1])
            if nm.startswith('_ZTVN10__cxxabiv1'):
                return '((uint8_t **)%s)' % nm
            if v[1] in self.m.funcs:
                return '(' + self.ctype(t) + ')&' + nm if t[0] == 'ptr' else nm
            return '&' + nm
        if k == 'cexpr':
            if v[1] == 'cast':
                op, (ft, fv), tt = v[2], v[3], v[4]
                inner = self.const(ft, fv)
                if op in ('ptrtoint',):
                    return '((%s)(uintptr_t)%s)' % (self.ctype(tt), inner)
                if op == 'inttoptr':
                    return '((%s)(uintptr_t)%s)' % (self.ctype(tt), inner)
                return '((%s)%s)' % (self.ctype(tt), inner)
            if v[1] == 'gep':
                bt, (pt, pv), idx = v[2], v[3], v[4]
                return self.gep_expr(bt, self.const(pt, pv), [(it, self.const(it, iv), iv) for it, iv in idx])
            if v[1] == 'bin':
                op, (t1, v1), (t2, v2) = v[2], v[3], v[4]
                return '(' + self.binop(op, t1, self.const(t1, v1), self.const(t2, v2)) + ')'
        raise NotImplementedError(v)

    def gep_expr(self, bt, base, idx):
        """idx: list of (type, cexpr, rawvalue)"""
        e = '(%s)' % base
        first = idx[0]
        cur = bt
        if not (first[2] is not None and first[2] == ('int', 0)):
            e = '(%s + %s)' % (e, self.sidx(first))
        for it in idx[1:]:
            r = self.resolve(cur)
            if r[0] == 'struct':
                n = it[2][1]
                e = '(&(%s)->f%d)' % (e, n)
                cur = r[1][n]
            elif r[0] == 'array':
                if it[2] is None and 1 < r[1] <= 256 and self.resolve(r[2])[0] == 'struct' and self.contains_array(r[2]):
                    # symbolic index into an array of aggregates that contain arrays: select among constant element
                    # addresses (CBMC 6.11 mis-dereferences "&a[i].member" followed by an access to a nested array)
                    e = '%s(%s, %s)' % (self.idx_helper(r), e, self.sidx(it))
                else:
                    e = '(&(*%s)[%s])' % (e, self.sidx(it))
                cur = r[2]
            else:
                raise NotImplementedError(('gep into', r))
        return e

    def sidx(self, it):
        t, e, raw = it
        if raw is not None and raw[0] == 'int':
            n = t[1]
            val = raw[1] & ((1 << n) - 1)
            if val >= 1 << (n - 1):
                val -= 1 << n
            return str(val)
        n = t[1]
        return '(int%d_t)%s' % (64 if n > 32 else 32 if n > 16 else n, e)

    def binop(self, op, t, a, b):
        rt = self.resolve(t)
        n = rt[1] if rt[0] == 'int' else 64
        ut = self.ctype(rt)
        st = 'int%d_t' % n if n in (8, 16, 32, 64) else None
        if n == 1:
            sym = {'add': '^', 'sub': '^', 'mul': '&', 'and': '&', 'or': '|', 'xor': '^'}[op]
            return '(_Bool)((%s %s %s) & 1)' % (a, sym, b)
        if op in ('add', 'sub', 'mul', 'and', 'or', 'xor', 'udiv', 'urem'):
            sym = {'add': '+', 'sub': '-', 'mul': '*', 'and': '&', 'or': '|', 'xor': '^', 'udiv': '/', 'urem': '%'}[op]
            return '(%s)((%s)%s %s (%s)%s)' % (ut, ut if n >= 32 else 'uint32_t', a, sym, ut if n >= 32 else 'uint32_t', b)
        if op == 'shl':
            return '(%s)((%s)%s << %s)' % (ut, ut if n >= 32 else 'uint32_t', a, b)
        if op == 'lshr':
            return '(%s)((%s)%s >> %s)' % (ut, ut, a, b)
        if op == 'ashr':
            return '(%s)((%s)%s >> %s)' % (ut, st, a, b)
        if op == 'sdiv':
            return '(%s)((%s)%s / (%s)%s)' % (ut, st, a, st, b)
        if op == 'srem':
            return '(%s)((%s)%s %% (%s)%s)' % (ut, st, a, st, b)
        raise NotImplementedError(op)


# ---------------------------------------------------------------- function bodies

class FnEmitter:
    def __init__(self, em, f):
        self.em = em
        self.m = em.m
        self.f = f
        self.types = {}  # local name -> type
        self.lines = []
        self.decls = []
        self.defs = {}
        self.casts = {}
        self.nonnull = set()

    def is_nonnull(self, v):
        if v[0] == 'global':
            return True
        if v[0] == 'cexpr':
            return True
        if v[0] != 'local':
            return False
        if v[1] in self.nonnull:
            return True
        d = self.defs.get(v[1])
        if d is None:
            return False
        if d['op'] == 'alloca':
            return True
        if d['op'] in ('bitcast',) and self.is_nonnull(d['frm'][1]):
            return True
        return False

    def nullcheck(self, ptr):
        if not self.em.nullchecks or self.is_nonnull(ptr[1]):
            return []
        if ptr[1][0] != 'local':
            return []
        self.nonnull.add(ptr[1][1])
        return ['VRT_CHECK_STOP(%s != 0, "no null pointer dereference");' % self.val(*ptr)]

    def val(self, t, v):
        if v[0] == 'local':
            return 'L' + cid(v[1])
        return self.em.const(t, v)

    def lab(self, name):
        return 'B' + cid(name)

    def emit(self):
        f = self.f
        em = self.em
        for (pt, pn, info) in f.params:
            if pn:
                self.types[pn] = pt
        # pass 1: collect phi nodes and result types
        phis = {}  # block -> [(dst, type, [(val, pred)])]
        parsed = []
        for (bn, insts) in f.blocks:
            pb = []
            for s in insts:
                ins = self.parse_inst(s)
                pb.append(ins)
                if ins.get('dst'):
                    self.types[ins['dst']] = ins['type']
                    self.defs[ins['dst']] = ins
                if ins['op'] == 'bitcast' and ins['frm'][1][0] == 'local' and ins['type'][0] == 'ptr':
                    self.casts.setdefault(ins['frm'][1][1], []).append(ins['type'][1])
                if ins['op'] == 'phi':
                    phis.setdefault(bn, []).append(ins)
            parsed.append((bn, pb))
        body = []
        for (bn, pb) in parsed:
            body.append('%s: ;' % self.lab(bn))
            for ins in pb:
                self.cur = bn
                self.phis = phis
                body.extend(self.inst(ins))
        ps = []
        for i, (pt, pn, info) in enumerate(f.params):
            ps.append(em.ctype(pt, 'L' + cid(pn) if pn else 'p%d' % i))
        if f.vararg:
            ps.append('...')
        sig = em.ctype(f.ret, '%s(%s)' % (cid(f.name), ', '.join(ps) if ps else 'void'))
        decls = []
        pnames = {pn for (_, pn, _) in f.params}
        for n, t in self.types.items():
            if n in pnames or t[0] == 'void':
                continue
            decls.append('  ' + em.ctype(t, 'L' + cid(n)) + ';')
        pro = ['  __vrt_static_init(); /* constant tables are initialised before any root runs, as in the real program */'] if f.name in em.roots else []
        return sig + '\n{\n' + '\n'.join(decls + self.decls + pro) + '\n' + '\n'.join('  ' + b if not b.endswith(': ;') else b for b in body) + '\n}\n'

    # ---- parsing one instruction into a dict
    def parse_inst(self, s):
        p = P(lex(s))
        dst = None
        if p.peek()[0] == 'id' and p.peek(1)[1] == '=':
            dst = p.next()[1]
            p.next()
        while p.peek()[1] in ('tail', 'musttail', 'notail'):
            p.next()
        op = p.next()[1]
        d = dict(op=op, dst=dst, type=None, s=s)
        if op == 'alloca':
            p.accept('inalloca')
            t = parse_type(p)
            cnt = None
            if p.accept(','):
                if p.peek()[1] != 'align':
                    ct = parse_type(p)
                    cnt = (ct, parse_value(p, ct))
            d.update(at=t, cnt=cnt, type=('ptr', t))
        elif op == 'load':
            p.accept('volatile')
            t = parse_type(p)
            p.expect(',')
            pt = parse_type(p)
            d.update(type=t, ptr=(pt, parse_value(p, pt)))
        elif op == 'store':
            p.accept('volatile')
            t = parse_type(p)
            v = parse_value(p, t)
            p.expect(',')
            pt = parse_type(p)
            d.update(val=(t, v), ptr=(pt, parse_value(p, pt)))
        elif op == 'getelementptr':
            p.accept('inbounds')
            bt = parse_type(p)
            p.expect(',')
            pt = parse_type(p)
            pv = parse_value(p, pt)
            idx = []
            while p.accept(','):
                it = parse_type(p)
                idx.append((it, parse_value(p, it)))
            cur = bt
            for it, iv in idx[1:]:
                r = self.em.resolve(cur)
                cur = r[1][iv[1]] if r[0] == 'struct' else r[2]
            d.update(bt=bt, ptr=(pt, pv), idx=idx, type=('ptr', cur))
        elif op in CAST_OPS:
            ft = parse_type(p)
            fv = parse_value(p, ft)
            p.expect('to')
            tt = parse_type(p)
            d.update(frm=(ft, fv), type=tt)
        elif op in BIN_OPS or op in ('fadd', 'fsub', 'fmul', 'fdiv', 'frem'):
            while p.peek()[1] in ('nuw', 'nsw', 'exact', 'fast', 'nnan', 'ninf', 'nsz', 'arcp', 'contract', 'afn', 'reassoc'):
                p.next()
            t = parse_type(p)
            a = parse_value(p, t)
            p.expect(',')
            b = parse_value(p, t)
            d.update(type=t, a=a, b=b)
        elif op == 'fneg':
            t = parse_type(p)
            d.update(type=t, a=parse_value(p, t))
        elif op in ('icmp', 'fcmp'):
            while p.peek()[1] in ('fast', 'nnan', 'ninf', 'nsz', 'arcp', 'contract', 'afn', 'reassoc'):
                p.next()
            pred = p.next()[1]
            t = parse_type(p)
            a = parse_value(p, t)
            p.expect(',')
            b = parse_value(p, t)
            d.update(type=('int', 1), pred=pred, ot=t, a=a, b=b)
        elif op == 'phi':
            t = parse_type(p)
            inc = []
            while True:
                p.expect('[')
                v = parse_value(p, t)
                p.expect(',')
                lb = p.next()[1]
                p.expect(']')
                inc.append((v, lb))
                if not p.accept(','):
                    break
            d.update(type=t, inc=inc)
        elif op == 'select':
            ct = parse_type(p)
            c = parse_value(p, ct)
            p.expect(',')
            t = parse_type(p)
            a = parse_value(p, t)
            p.expect(',')
            t2 = parse_type(p)
            b = parse_value(p, t2)
            d.update(type=t, c=c, a=a, b=b)
        elif op == 'br':
            if p.peek()[1] == 'label':
                p.next()
                d.update(targets=[p.next()[1]], c=None)
            else:
                ct = parse_type(p)
                c = parse_value(p, ct)
                p.expect(',')
                p.expect('label')
                t1 = p.next()[1]
                p.expect(',')
                p.expect('label')
                t2 = p.next()[1]
                d.update(targets=[t1, t2], c=c)
        elif op == 'switch':
            t = parse_type(p)
            v = parse_value(p, t)
            p.expect(',')
            p.expect('label')
            dflt = p.next()[1]
            p.expect('[')
            cases = []
            while not p.accept(']'):
                ct = parse_type(p)
                cv = parse_value(p, ct)
                p.expect(',')
                p.expect('label')
                cases.append((cv, p.next()[1]))
            d.update(ot=t, v=v, dflt=dflt, cases=cases)
        elif op == 'ret':
            t = parse_type(p)
            d.update(rt=t, v=None if t[0] == 'void' else parse_value(p, t))
        elif op == 'unreachable':
            pass
        elif op == 'call':
            while p.peek()[0] == 'word' and (p.peek()[1] in LINKAGE or p.peek()[1] in ('fast', 'nnan', 'ninf', 'nsz', 'arcp', 'contract', 'afn', 'reassoc')):
                p.next()
            skip_ret_attrs(p)
            rt = parse_type_noparen_call(p)
            callee = p.next()
            castcall = False
            if callee[1] == 'bitcast':
                # call through a constant cast of a function (same function, structurally identical type from another TU)
                p.expect('(')
                parse_type(p)
                callee = p.next()
                p.expect('to')
                parse_type(p)
                p.expect(')')
                castcall = True
            p.expect('(')
            args = []
            if not p.accept(')'):
                while True:
                    at = parse_type(p)
                    info = skip_param_attrs(p)
                    if at[0] == 'metadata':
                        # metadata operand: skip tokens to next ',' or ')'
                        while p.peek()[1] not in (',', ')'):
                            p.next()
                        args.append((at, ('undef',), info))
                    else:
                        args.append((at, parse_value(p, at), info))
                    if p.accept(')'):
                        break
                    p.expect(',')
            fty = None
            if rt[0] == 'func':
                fty = rt
                rt = rt[1]
            d.update(type=rt, callee=callee, args=args, fty=fty, castcall=castcall)
        elif op == 'extractvalue':
            t = parse_type(p)
            v = parse_value(p, t)
            idx = []
            while p.accept(','):
                idx.append(int(p.next()[1]))
            cur = t
            for i in idx:
                r = self.em.resolve(cur)
                cur = r[1][i] if r[0] == 'struct' else r[2]
            d.update(at=t, v=v, idx=idx, type=cur)
        elif op == 'insertvalue':
            t = parse_type(p)
            v = parse_value(p, t)
            p.expect(',')
            et = parse_type(p)
            ev = parse_value(p, et)
            idx = []
            while p.accept(','):
                idx.append(int(p.next()[1]))
            d.update(type=t, v=v, ev=(et, ev), idx=idx)
        elif op == 'freeze':
            t = parse_type(p)
            d.update(type=t, a=parse_value(p, t))
        else:
            raise NotImplementedError('instruction ' + s)
        return d

    # ---- emit one instruction
    def edge(self, target):
        """parallel phi copies for edge cur->target, then goto"""
        out = []
        ph = self.phis.get(target, [])
        if ph:
            tmps = []
            for k, ins in enumerate(ph):
                v = [x for x in ins['inc'] if x[1] == self.cur][0][0]
                if v[0] == 'undef':
                    continue
                tn = 'ph%d_%s' % (k, cid(ins['dst']))
                out.append('%s = %s;' % (self.em.ctype(ins['type'], tn), self.cval(ins['type'], v)))
                tmps.append((ins['dst'], tn))
            for dst, tn in tmps:
                out.append('L%s = %s;' % (cid(dst), tn))
        out.append('goto %s;' % self.lab(target))
        return '{ ' + ' '.join(out) + ' }'

    def cval(self, t, v):
        s = self.val(t, v)
        rt = self.em.resolve(t)
        if v[0] in ('zero', 'undef') and rt[0] in ('struct', 'array'):
            return '(%s){0}' % self.em.ctype(t)
        if v[0] == 'agg':
            return '(%s)%s' % (self.em.ctype(t), s)
        return s

    def inst(self, d):
        em = self.em
        op = d['op']
        dst = 'L' + cid(d['dst']) if d.get('dst') else None
        if op == 'alloca':
            n = 'S' + cid(d['dst'])
            if d['cnt'] is not None and not (d['cnt'][1][0] == 'int'):
                raise NotImplementedError('variable alloca')
            cnt = d['cnt'][1][1] if d['cnt'] else None
            if cnt is None or cnt == 1:
                self.decls.append('  ' + em.ctype(d['at'], n) + ';')
                return ['%s = &%s;' % (dst, n)]
            self.decls.append('  ' + em.ctype(('array', cnt, d['at']), n) + ';')
            return ['%s = &%s[0];' % (dst, n)]
        if op == 'load':
            return self.nullcheck(d['ptr']) + ['%s = *%s;' % (dst, self.val(*d['ptr']))]
        if op == 'store':
            return self.nullcheck(d['ptr']) + ['*%s = %s;' % (self.val(*d['ptr']), self.cval(*d['val']))]
        if op == 'getelementptr':
            # p = &arr[0]; q = p + i   ==>   q = &arr[i]   (keeps access paths typed; CBMC mis-propagates "&a[0] + k" into nested arrays)
            if len(d['idx']) == 1 and d['ptr'][1][0] == 'local':
                inner = self.defs.get(d['ptr'][1][1])
                if inner and inner['op'] == 'getelementptr' and len(inner['idx']) >= 2 and inner['idx'][-1][1] == ('int', 0):
                    cur = inner['bt']
                    for it, iv in inner['idx'][1:-1]:
                        r = em.resolve(cur)
                        cur = r[1][iv[1]] if r[0] == 'struct' else r[2]
                    if em.resolve(cur)[0] == 'array':
                        fused = dict(d)
                        fused.update(bt=inner['bt'], ptr=inner['ptr'], idx=inner['idx'][:-1] + [d['idx'][0]])
                        d = fused
            idx = [(it, self.val(it, iv), iv if iv[0] == 'int' else None) for it, iv in d['idx']]
            pre = self.nullcheck(d['ptr']) if len(idx) > 1 else []
            if len(idx) > 1 or self.is_nonnull(d['ptr'][1]):
                self.nonnull.add(d['dst'])
            return pre + ['%s = %s;' % (dst, em.gep_expr(d['bt'], self.val(*d['ptr']), idx))]
        if op in CAST_OPS:
            ft, fv = d['frm']
            tt = d['type']
            a = self.val(ft, fv)
            ct = em.ctype(tt)
            if op in ('bitcast', 'addrspacecast'):
                if ft[0] == 'ptr' and tt[0] == 'ptr':
                    # a cast to (a prefix of) the first member is emitted as a typed member access, not as a reinterpreting cast
                    path = em.first_member_path(ft[1], tt[1])
                    if path:
                        return ['%s = %s;' % (dst, '&(%s)->%s' % (a, path))]
                    return ['%s = (%s)%s;' % (dst, ct, a)]
                return ['memcpy(&%s, &(%s){%s}, sizeof(%s));' % (dst, em.ctype(ft), a, dst)]
            if op == 'ptrtoint':
                return ['%s = (%s)(uintptr_t)%s;' % (dst, ct, a)]
            if op == 'inttoptr':
                return ['%s = (%s)(uintptr_t)%s;' % (dst, ct, a)]
            if op in ('trunc', 'zext'):
                if tt == ('int', 1):
                    return ['%s = (%s & 1);' % (dst, a)]
                return ['%s = (%s)%s;' % (dst, ct, a)]
            if op == 'sext':
                fn = em.resolve(ft)[1]
                tn = em.resolve(tt)[1]
                if fn == 1:
                    return ['%s = %s ? (%s)-1 : 0;' % (dst, a, ct)]
                return ['%s = (%s)(int%d_t)(int%d_t)%s;' % (dst, ct, tn, fn, a)]
            if op == 'sitofp':
                fn = em.resolve(ft)[1]
                return ['%s = (%s)(int%d_t)%s;' % (dst, ct, fn, a)]
            if op == 'uitofp':
                return ['%s = (%s)%s;' % (dst, ct, a)]
            if op == 'fptosi':
                tn = em.resolve(tt)[1]
                return ['%s = (%s)(int%d_t)%s;' % (dst, ct, tn, a)]
            if op in ('fptoui', 'fpext', 'fptrunc'):
                return ['%s = (%s)%s;' % (dst, ct, a)]
        if op == 'sub' and d['a'][0] == 'local' and d['b'][0] == 'local':
            # (intptr)p - (intptr)q  ==>  (char *)p - (char *)q : a pointer difference (same object) folds to a constant in CBMC,
            # a difference of two integer addresses does not
            da, db = self.defs.get(d['a'][1]), self.defs.get(d['b'][1])
            if da and db and da['op'] == 'ptrtoint' and db['op'] == 'ptrtoint' and self.em.resolve(d['type']) == ('int', 64):
                pa, pb = self.val(*da['frm']), self.val(*db['frm'])
                return ['%s = (uint64_t)((uint8_t *)%s - (uint8_t *)%s);' % (dst, pa, pb)]
        if op in BIN_OPS:
            return ['%s = %s;' % (dst, em.binop(op, d['type'], self.val(d['type'], d['a']), self.val(d['type'], d['b'])))]
        if op in ('fadd', 'fsub', 'fmul', 'fdiv'):
            sym = {'fadd': '+', 'fsub': '-', 'fmul': '*', 'fdiv': '/'}[op]
            return ['%s = %s %s %s;' % (dst, self.val(d['type'], d['a']), sym, self.val(d['type'], d['b']))]
        if op == 'fneg':
            return ['%s = -%s;' % (dst, self.val(d['type'], d['a']))]
        if op == 'freeze':
            return ['%s = %s;' % (dst, self.cval(d['type'], d['a']))]
        if op == 'icmp':
            t = em.resolve(d['ot'])
            a = self.val(d['ot'], d['a'])
            b = self.val(d['ot'], d['b'])
            pred = d['pred']
            if t[0] == 'ptr':
                if pred in ('eq', 'ne'):
                    return ['%s = ((void*)%s %s (void*)%s);' % (dst, a, '==' if pred == 'eq' else '!=', b)]
                a = '(uintptr_t)' + a
                b = '(uintptr_t)' + b
                t = ('int', 64)
            sym = {'eq': '==', 'ne': '!=', 'ugt': '>', 'uge': '>=', 'ult': '<', 'ule': '<=', 'sgt': '>', 'sge': '>=', 'slt': '<', 'sle': '<='}[pred]
            if pred[0] == 's':
                n = t[1]
                if n in (8, 16, 32, 64):
                    return ['%s = ((int%d_t)%s %s (int%d_t)%s);' % (dst, n, a, sym, n, b)]
                raise NotImplementedError('signed icmp i%d' % n)
            return ['%s = (%s %s %s);' % (dst, a, sym, b)]
        if op == 'fcmp':
            a = self.val(d['ot'], d['a'])
            b = self.val(d['ot'], d['b'])
            pred = d['pred']
            ordc = '(%s == %s && %s == %s)' % (a, a, b, b)
            base = {'eq': '==', 'ne': '!=', 'gt': '>', 'ge': '>=', 'lt': '<', 'le': '<='}
            if pred == 'ord':
                return ['%s = %s;' % (dst, ordc)]
            if pred == 'uno':
                return ['%s = !%s;' % (dst, ordc)]
            if pred == 'true':
                return ['%s = 1;' % dst]
            if pred == 'false':
                return ['%s = 0;' % dst]
            if pred[0] == 'o':
                if pred == 'one':
                    return ['%s = (%s && %s != %s);' % (dst, ordc, a, b)]
                return ['%s = (%s %s %s);' % (dst, a, base[pred[1:]], b)]
            # unordered
            if pred == 'une':
                return ['%s = (%s != %s);' % (dst, a, b)]
            return ['%s = (!%s || %s %s %s);' % (dst, ordc, a, base[pred[1:]], b)]
        if op == 'phi':
            return []
        if op == 'select':
            return ['%s = %s ? %s : %s;' % (dst, self.val(('int', 1), d['c']), self.cval(d['type'], d['a']), self.cval(d['type'], d['b']))]
        if op == 'br':
            if d['c'] is None:
                return [self.edge(d['targets'][0])]
            return ['if (%s) %s else %s' % (self.val(('int', 1), d['c']), self.edge(d['targets'][0]), self.edge(d['targets'][1]))]
        if op == 'switch':
            out = ['switch (%s) {' % self.val(d['ot'], d['v'])]
            for cv, lb in d['cases']:
                out.append('  case %s: %s' % (em.const(d['ot'], cv), self.edge(lb)))
            out.append('  default: %s' % self.edge(d['dflt']))
            out.append('}')
            return out
        if op == 'ret':
            pre = []
            if self.f.name in em.roots:
                # the string bound is asserted, not assumed: a truncated string must never have taken part in a comparison
                pre = ['VRT_CHECK(__vstd_trunc_used == 0, "string bound large enough: no truncated string was compared");']
            if d['v'] is None:
                return pre + ['return;']
            return pre + ['return %s;' % self.cval(d['rt'], d['v'])]
        if op == 'unreachable':
            return ['__vrt_unreachable();']
        if op == 'extractvalue':
            e = self.cval(d['at'], d['v'])
            cur = d['at']
            for i in d['idx']:
                r = em.resolve(cur)
                if r[0] == 'struct':
                    e = '(%s).f%d' % (e, i)
                    cur = r[1][i]
                else:
                    e = '(%s)[%d]' % (e, i)
                    cur = r[2]
            return ['%s = %s;' % (dst, e)]
        if op == 'insertvalue':
            out = []
            if d['v'][0] in ('undef', 'zero'):
                out.append('memset(&%s, 0, sizeof(%s));' % (dst, dst))
            else:
                out.append('%s = %s;' % (dst, self.cval(d['type'], d['v'])))
            e = dst
            cur = d['type']
            for i in d['idx']:
                r = em.resolve(cur)
                if r[0] == 'struct':
                    e = '%s.f%d' % (e, i)
                    cur = r[1][i]
                else:
                    e = '%s[%d]' % (e, i)
                    cur = r[2]
            out.append('%s = %s;' % (e, self.cval(*d['ev'])))
            return out
        if op == 'call':
            return self.call(d, dst)
        raise NotImplementedError(op)

    def call(self, d, dst):
        em = self.em
        k, callee = d['callee']
        args = d['args']
        av = [self.cval(t, v) for (t, v, info) in args]
        pre = []
        for i, (t, v, info) in enumerate(args):
            if 'byval' in info:
                tn = 'bv%d_%d' % (len(self.decls), i)
                self.decls.append('  ' + em.ctype(info['byval'], tn) + ';')
                pre.append('%s = *%s;' % (tn, av[i]))
                av[i] = '&' + tn
        if callee.startswith('@llvm.'):
            nm = callee[6:]
            if nm.startswith('lifetime.') or nm.startswith('dbg.') or nm.startswith('invariant.') or nm.startswith('experimental.noalias') or nm.startswith('assume'):
                if dst and d['type'][0] != 'void':
                    return ['%s = 0;' % dst]
                return []
            if nm.startswith('memcpy.') or nm.startswith('memmove.'):
                # a whole-object copy between two pointers of the same struct type is emitted as a struct assignment:
                # CBMC keeps it field-wise (constants propagate); a byte-wise memcpy turns the object into byte_extracts
                def typed(v):
                    if v[0] != 'local':
                        return None
                    dd = self.defs.get(v[1])
                    if dd and dd['op'] == 'bitcast' and dd['frm'][0][0] == 'ptr' and em.resolve(dd['frm'][0][1])[0] == 'struct':
                        return dd['frm']
                    return None
                td, ts = typed(args[0][1]), typed(args[1][1])
                if td and ts and td[0] == ts[0] and args[2][1][0] == 'int' and args[2][1][1] == em.sizeof(td[0][1]):
                    return ['*%s = *%s;' % (self.val(*td), self.val(*ts))]
                return ['%s(%s, %s, %s);' % ('memcpy' if nm.startswith('memcpy') else 'memmove', av[0], av[1], av[2])]
            if nm.startswith('memset.'):
                return ['memset(%s, %s, %s);' % (av[0], av[1], av[2])]
            if nm == 'trap':
                return ['__vrt_trap();']
            if nm.startswith('umax.'):
                return ['%s = %s > %s ? %s : %s;' % (dst, av[0], av[1], av[0], av[1])]
            if nm.startswith('umin.'):
                return ['%s = %s < %s ? %s : %s;' % (dst, av[0], av[1], av[0], av[1])]
            if nm.startswith('smax.') or nm.startswith('smin.'):
                n = em.resolve(d['type'])[1]
                sym = '>' if nm.startswith('smax') else '<'
                return ['%s = (int%d_t)%s %s (int%d_t)%s ? %s : %s;' % (dst, n, av[0], sym, n, av[1], av[0], av[1])]
            if nm.startswith('fabs.'):
                return ['%s = fabs(%s);' % (dst, av[0])]
            if nm.startswith('fmuladd.'):
                return ['%s = %s * %s + %s;' % (dst, av[0], av[1], av[2])]
            if nm.startswith('expect.'):
                return ['%s = %s;' % (dst, av[0])]
            raise NotImplementedError('intrinsic ' + callee)
        if callee in ('@_Znwm', '@__vstd_alloc') and d.get('dst') in self.casts:
            # typed allocation: CBMC models the object with the struct type rather than as a byte array
            tys = [t for t in self.casts[d['dst']] if em.resolve(t)[0] == 'struct']
            if tys:
                return ['%s = (uint8_t *)__vrt_typed_alloc(malloc(sizeof(%s)));' % (dst, em.ctype(tys[0]))]
        if callee == '@__vrt_check':
            msg = None
            mv = args[1][1]
            while mv[0] == 'cexpr':
                mv = mv[3][1]
            if mv[0] == 'global' and mv[1] in self.m.globals and self.m.globals[mv[1]]['init'] and self.m.globals[mv[1]]['init'][0] == 'cstr':
                msg = self.m.globals[mv[1]]['init'][1].rstrip(b'\0').decode('latin-1')
            if msg is None:
                raise NotImplementedError('__vrt_check needs a string literal message')
            msg = msg.replace('\\', '/').replace('"', "'")
            self.em.check_msgs.append(msg)
            return ['VRT_CHECK(%s, "%s");' % (av[0], msg)]
        if callee == '@__dynamic_cast' and args[2][1][0] == 'cexpr':
            d3 = args[2][1]
            while d3[0] == 'cexpr':
                d3 = d3[3][1]
            return ['%s = %s(%s);' % (dst, em.dyncast_fn(d3[1]), av[0])]
        if callee[0] == '@':
            fn = cid(callee)
            if callee not in self.m.funcs:
                raise NotImplementedError('call to unknown ' + callee)
        else:
            vd = self.virtual_dispatch(d, dst, av)
            if vd is not None:
                return pre + vd
            fn = '(%s)' % ('L' + cid(callee))
        if d.get('castcall') and callee in self.m.funcs:
            f = self.m.funcs[callee]
            av = ['(%s)%s' % (em.ctype(pt), a) if pt[0] == 'ptr' else a for (pt, pn, info), a in zip(f.params, av)] + av[len(f.params):]
            c = '%s(%s)' % (fn, ', '.join(av))
            if dst and d['type'][0] != 'void':
                if d['type'][0] == 'ptr':
                    return pre + ['%s = (%s)%s;' % (dst, em.ctype(d['type']), c)]
                return pre + ['%s = %s;' % (dst, c)]
            return pre + [c + ';']
        c = '%s(%s)' % (fn, ', '.join(av))
        if dst and d['type'][0] != 'void':
            return pre + ['%s = %s;' % (dst, c)]
        return pre + [c + ';']


def _virtual_dispatch(self, d, dst, av):
    """callee = load(gep(load vptr, k)) -> explicit dispatch over the vtable address points"""
    em = self.em
    callee = d['callee'][1]
    ld = self.defs.get(callee)
    if not ld or ld['op'] != 'load' or ld['ptr'][1][0] != 'local':
        return None
    slot = self.defs.get(ld['ptr'][1][1])
    k = 0
    vt = ld['ptr'][1][1]
    if slot and slot['op'] == 'getelementptr' and len(slot['idx']) == 1 and slot['idx'][0][1][0] == 'int' and slot['ptr'][1][0] == 'local':
        k = slot['idx'][0][1][1]
        vt = slot['ptr'][1][1]
        slot = self.defs.get(vt)
    if not slot or slot['op'] != 'load':
        return None
    vtv = 'L' + cid(vt)
    out = []
    first = True
    nargs = len(d['args'])
    for (g, si, cls, suboff, fns) in em.aps:
        if g not in em.reach or k >= len(fns) or fns[k] is None:
            continue
        f = self.m.funcs.get(fns[k])
        if f is None or len(f.params) != nargs or (f.ret[0] == 'void') != (d['type'][0] == 'void'):
            continue
        cargs = ', '.join('(%s)%s' % (em.ctype(pt), a) if pt[0] == 'ptr' else a for (pt, pn, info), a in zip(f.params, av))
        c = '%s(%s)' % (cid(fns[k]), cargs)
        if dst and d['type'][0] != 'void':
            c = '%s = %s' % (dst, c)
        out.append('%sif ((uint8_t *)%s == (uint8_t *)&%s.f%d[2]) { %s; }' % ('' if first else 'else ', vtv, cid(g), si, c))
        first = False
    if not out:
        return None
    out.append('else { __vrt_unreachable(); }')
    return out


FnEmitter.virtual_dispatch = _virtual_dispatch


def parse_type_noparen_call(p):
    """return type (or full function type for varargs/indirect calls) of a call"""
    save = p.i
    t = parse_type(p)
    nxt = p.peek()
    if nxt[0] == 'id':
        return t
    p.i = save
    return parse_base_and_stars(p)


# ---------------------------------------------------------------- reachability + driver

def refs_in_text(lines):
    out = set()
    for s in lines:
        for mm in re.finditer(r'@(?:[-a-zA-Z$._0-9]+|"(?:[^"\\]|\\.)*")', s):
            out.add(mm.group(0))
    return out


def value_refs(v, acc):
    if v is None:
        return
    k = v[0]
    if k == 'global':
        acc.add(v[1])
    elif k == 'agg':
        for t, x in v[1]:
            value_refs(x, acc)
    elif k == 'cexpr':
        if v[1] == 'cast':
            value_refs(v[3][1], acc)
        elif v[1] == 'gep':
            value_refs(v[3][1], acc)
        elif v[1] == 'bin':
            value_refs(v[3][1], acc)
            value_refs(v[4][1], acc)


def main():
    args = sys.argv[1:]
    src, dst = args[0], args[1]
    roots = []
    nonull = False
    i = 2
    while i < len(args):
        if args[i] == '--root':
            roots.append('@' + args[i + 1])
            i += 2
        elif args[i] == '--no-nullchecks':
            nonull = True
            i += 1
        else:
            raise SystemExit('bad arg ' + args[i])
    m = parse_module(open(src).read())
    em = Emitter(m)
    em.nullchecks = not nonull
    em.roots = set(roots)

    def refs_of(name):
        acc = set()
        if name in m.funcs:
            f = m.funcs[name]
            if f.blocks:
                for bn, insts in f.blocks:
                    acc |= refs_in_text(insts)
        elif name in m.globals:
            value_refs(m.globals[name]['init'], acc)
        return acc

    reach = set()
    work = list(roots)
    inits = [n for n in m.funcs if cid(n).startswith('__cxx_global_var_init')]
    init_refs = {n: refs_of(n) for n in inits}
    used_inits = []
    while True:
        while work:
            n = work.pop()
            if n in reach:
                continue
            reach.add(n)
            for r in refs_of(n):
                if r not in reach:
                    work.append(r)
        added = False
        for n in inits:
            if n in reach:
                continue
            # the variable(s) this initialiser constructs: non-constant globals with a definition
            targets = [r for r in init_refs[n] if r in m.globals and not m.globals[r]['const'] and not m.globals[r]['external']]
            if any(t in reach for t in targets):
                work.append(n)
                used_inits.append(n)
                added = True
        if not added and not work:
            break
    for r in roots:
        if r not in m.funcs:
            raise SystemExit('root %s not found' % r)

    em.reach = reach
    em.build_rtti()
    out = []
    out.append('#include "vrt.h"\nvoid __vrt_static_init(void);\nextern uint32_t __vstd_trunc_used;\n')
    # function bodies first (into a buffer) so anon struct types get discovered
    bodies = []
    protos = []
    undefined = []
    for n in m.funcs:
        if n not in reach or n.startswith('@llvm.'):
            continue
        f = m.funcs[n]
        ps = [em.ctype(pt) for (pt, pn, info) in f.params]
        if f.vararg:
            ps.append('...')
        protos.append(em.ctype(f.ret, '%s(%s)' % (cid(n), ', '.join(ps) if ps else 'void')) + ';')
        if f.blocks is not None:
            bodies.append(FnEmitter(em, f).emit())
        else:
            undefined.append((n, f))
    gl = []
    gl_static = []  # globals constructed by a static initialiser: their final value can be precomputed (see dump code below)
    gdecl = []
    static_targets = []
    for n in used_inits:
        for r in init_refs[n]:
            if r in m.globals and not m.globals[r]['const'] and not m.globals[r]['external'] and r in reach and r not in static_targets \
                    and not cid(r).startswith(('_ZGV', '__dso_handle')):
                static_targets.append(r)
    for n, g in m.globals.items():
        if n not in reach or n == '@llvm.global_ctors':
            continue
        cq = ''
        if cid(n).startswith('_ZTVN10__cxxabiv1'):
            gdecl.append('uint8_t *%s[3];' % cid(n))
        elif g['external']:
            gdecl.append('extern ' + em.ctype(g['type'], cid(n)) + ';')
        else:
            gdecl.append(em.ctype(g['type'], cid(n)) + ';')
            (gl_static if n in static_targets else gl).append(cq + em.ctype(g['type'], cid(n)) + ' = ' + em.const(g['type'], g['init']) + ';')
    # ---- typed dumpers for the statically constructed globals (native build only, -DVRT_DUMP_STATICS)
    dumpers = {}
    dump_code = []

    def dumper(t):
        rt = em.resolve(t)
        key = repr(t)
        if key in dumpers:
            return dumpers[key]
        nm = 'vrt_dump_%d' % len(dumpers)
        dumpers[key] = nm
        ct = em.ctype(('ptr', t), 'p')
        if rt[0] == 'int':
            body = 'if (*p) fprintf(f, "  %s = %lluULL;\\n", path, (unsigned long long)*p);' if rt[1] > 1 else 'if (*p & 1) fprintf(f, "  %s = 1;\\n", path);'
        elif rt[0] in ('double', 'float'):
            body = 'if (*p != *p) fprintf(f, "  %s = __builtin_nan(\\"\\");\\n", path); else if (*p == __builtin_huge_val()) fprintf(f, "  %s = __builtin_huge_val();\\n", path); else if (*p == -__builtin_huge_val()) fprintf(f, "  %s = -__builtin_huge_val();\\n", path); else if (*p != 0.0) fprintf(f, "  %s = %a;\\n", path, (double)*p);'
        elif rt[0] == 'ptr':
            body = 'if (*p != 0) { fprintf(stderr, "static data holds a pointer: cannot precompute\\n"); exit(9); }'
        elif rt[0] == 'array':
            sub = dumper(rt[2])
            body = 'char q[512]; for (int i = 0; i < %d; ++i) { snprintf(q, sizeof q, "%%s[%%d]", path, i); %s(f, q, &(*p)[i]); }' % (max(rt[1], 1), sub)
        elif rt[0] == 'struct':
            parts = ['char q[512];']
            for i, ft in enumerate(rt[1]):
                parts.append('snprintf(q, sizeof q, "%%s.f%d", path); %s(f, q, &p->f%d);' % (i, dumper(ft), i))
            body = ' '.join(parts)
        else:
            raise NotImplementedError(('dump', rt))
        dump_code.append('static void %s(FILE *f, const char *path, %s) { %s }' % (nm, ct, body))
        return nm
    dump_main = []
    for n in static_targets:
        g = m.globals[n]
        dn = dumper(g['type'])
        dump_main.append('  %s(f, "%s", &%s);' % (dn, cid(n), cid(n)))
    structs = em.emit_struct_defs(None)
    out.append(structs)
    out.append('\n'.join(protos))
    out.append('\n'.join(gdecl))
    out.append('\n'.join(gl))
    out.append('\n'.join(gl_static))
    out.append('\n\n'.join(em.dyncasts.values()))
    out.append('\n\n'.join(v[1] for v in em.idx_helpers.values()))
    out.append('\n'.join(bodies))
    stubs = ['#ifndef __CPROVER__', 'void __vrt_undefined_call(const char *name);']
    LIBC = {'log10', 'pow', 'fabs', 'floor', 'ceil', 'sqrt', 'log', 'exp', 'isspace', 'isdigit', 'strlen', 'memcmp', 'abs', 'labs', 'round', 'trunc', 'fmod'}
    for n, f in [x for x in undefined if cid(x[0]) not in ("__vrt_static_init",) and cid(x[0]) not in LIBC]:
        ps = [em.ctype(pt, 'p%d' % i) for i, (pt, pn, info) in enumerate(f.params)]
        if f.vararg:
            ps.append('...')
        body = '{ __vrt_undefined_call("%s"); %s }' % (cid(n), '' if f.ret[0] == 'void' else 'return (%s)0;' % em.ctype(f.ret))
        stubs.append('__attribute__((weak)) ' + em.ctype(f.ret, '%s(%s)' % (cid(n), ', '.join(ps) if ps else 'void')) + ' ' + body)
    stubs.append('#endif')
    out.append('\n'.join(stubs))
    # static initialisation in source order of the init functions
    order = [n for n in m.funcs if n in used_inits]
    out.append('void __vrt_static_init(void)\n{\n#ifdef VRT_PRECOMPUTED_STATICS\n#include "statics.inc"\n#else\n' + '\n'.join('  %s();' % cid(n) for n in order) + '\n#endif\n}\n')
    out.append('#ifdef VRT_DUMP_STATICS\n#include <stdio.h>\n' + '\n'.join(dump_code) +
               '\nvoid __vrt_dump_statics(FILE *f)\n{\n' + '\n'.join(dump_main) + '\n}\n#endif\n')
    open(dst, 'w').write('\n\n'.join(out))
    import json
    json.dump(dict(functions=sorted(cid(n) for n in m.funcs if n in reach and not n.startswith('@llvm.') and m.funcs[n].blocks is not None),
                   stubs=sorted(cid(n) for n, f in undefined),
                   static_inits=[cid(n) for n in order], static_targets=[cid(n) for n in static_targets], checks=em.check_msgs), open(dst + '.json', 'w'))
    sys.stderr.write('ir2c: %d functions, %d globals, %d static initialisers\n' % (len(bodies), len(gl), len(order)))


if __name__ == '__main__':
    main()
