#!/usr/bin/env python3
"""ir2smt: symbolic evaluation of a loop-free, call-free, memory-free LLVM-IR function into SMT-LIB2 (QF_BV).

Used for pure integer kernels where bit-blasting stalls (C18's cache key).  The function is instantiated any number of
times under a prefix; its result (scalar or first-class aggregate) is a list of bit-vector terms.
Anything outside the supported subset raises NotImplementedError (=> the check reports "not encodable", never a pass)."""
import re
import sys
import os
sys.path.insert(0, os.path.dirname(os.path.abspath(__file__)))
import ir2c  # parser only


def bv(n, v):
    return '(_ bv%d %d)' % (v & ((1 << n) - 1), n)


class Enc:
    def __init__(self, module_text, fname):
        self.m = ir2c.parse_module(module_text)
        cands = [n for n in self.m.funcs if n == '@' + fname]
        if not cands:
            raise NotImplementedError('function %s not found in IR' % fname)
        self.f = self.m.funcs[cands[0]]
        if self.f.blocks is None:
            raise NotImplementedError('function %s has no body' % fname)
        self.em = ir2c.Emitter(self.m)
        self.defs = []

    def width(self, t):
        t = self.em.resolve(t)
        if t[0] == 'int':
            return t[1]
        raise NotImplementedError('type %r' % (t,))

    def instantiate(self, prefix, args):
        """args: list of SMT terms (one per parameter). returns (list of define-fun lines, result terms list)"""
        f = self.f
        fe = ir2c.FnEmitter(self.em, f)
        env = {}
        for (pt, pn, info), a in zip(f.params, args):
            env[pn] = a
        lines = []
        cnt = [0]

        def fresh(width_or_bool, expr):
            cnt[0] += 1
            nm = '%s_t%d' % (prefix, cnt[0])
            sort = 'Bool' if width_or_bool == 'bool' else '(_ BitVec %d)' % width_or_bool
            lines.append('(define-fun %s () %s %s)' % (nm, sort, expr))
            return nm

        def val(t, v):
            k = v[0]
            if k == 'local':
                return env[v[1]]
            rt = self.em.resolve(t)
            if k == 'int':
                return bv(rt[1], v[1])
            if k in ('undef', 'zero'):
                if rt[0] == 'int':
                    return bv(rt[1], 0)
                if rt[0] == 'struct':
                    return [val(ft, ('zero',)) for ft in rt[1]]
            raise NotImplementedError('value %r' % (v,))

        # block path conditions (blocks are visited in IR order, which is topological for loop-free code)
        names = [bn for bn, _ in f.blocks]
        cond = {names[0]: 'true'}
        edge = {}  # (from, to) -> condition
        result = None
        ret_terms = []  # (cond, value)
        seen = set()
        for bn, insts in f.blocks:
            seen.add(bn)
            bc = cond.get(bn)
            if bc is None:
                continue  # unreachable
            for s in insts:
                d = fe.parse_inst(s)
                op = d['op']
                dst = d.get('dst')
                if op == 'phi':
                    w = self.width(d['type'])
                    e = None
                    for v, lb in reversed(d['inc']):
                        ec = edge.get((lb, bn))
                        if ec is None:
                            continue
                        x = val(d['type'], v)
                        e = x if e is None else '(ite %s %s %s)' % (ec, x, e)
                    env[dst] = fresh(w, e)
                elif op in ir2c.BIN_OPS:
                    w = self.width(d['type'])
                    a, b = val(d['type'], d['a']), val(d['type'], d['b'])
                    smt = {'add': 'bvadd', 'sub': 'bvsub', 'mul': 'bvmul', 'and': 'bvand', 'or': 'bvor', 'xor': 'bvxor', 'shl': 'bvshl', 'lshr': 'bvlshr',
                           'ashr': 'bvashr', 'udiv': 'bvudiv', 'urem': 'bvurem', 'sdiv': 'bvsdiv', 'srem': 'bvsrem'}[op]
                    env[dst] = fresh(w, '(%s %s %s)' % (smt, a, b))
                elif op == 'icmp':
                    a, b = val(d['ot'], d['a']), val(d['ot'], d['b'])
                    p = d['pred']
                    if p == 'eq':
                        e = '(= %s %s)' % (a, b)
                    elif p == 'ne':
                        e = '(not (= %s %s))' % (a, b)
                    else:
                        e = '(%s %s %s)' % ({'ult': 'bvult', 'ule': 'bvule', 'ugt': 'bvugt', 'uge': 'bvuge', 'slt': 'bvslt', 'sle': 'bvsle', 'sgt': 'bvsgt', 'sge': 'bvsge'}[p], a, b)
                    env[dst] = fresh(1, '(ite %s #b1 #b0)' % e)
                elif op == 'select':
                    c = val(('int', 1), d['c'])
                    a, b = val(d['type'], d['a']), val(d['type'], d['b'])
                    if isinstance(a, list):
                        env[dst] = [fresh(self.width(ft), '(ite (= %s #b1) %s %s)' % (c, x, y)) for ft, x, y in zip(self.em.resolve(d['type'])[1], a, b)]
                    else:
                        env[dst] = fresh(self.width(d['type']), '(ite (= %s #b1) %s %s)' % (c, a, b))
                elif op in ('zext', 'sext', 'trunc'):
                    fw_, tw = self.width(d['frm'][0]), self.width(d['type'])
                    a = val(*d['frm'])
                    if op == 'trunc':
                        e = '((_ extract %d 0) %s)' % (tw - 1, a)
                    else:
                        e = '((_ %s %d) %s)' % ('zero_extend' if op == 'zext' else 'sign_extend', tw - fw_, a)
                    env[dst] = fresh(tw, e)
                elif op == 'freeze':
                    env[dst] = val(d['type'], d['a'])
                elif op == 'insertvalue':
                    agg = val(d['type'], d['v'])
                    if len(d['idx']) != 1:
                        raise NotImplementedError('nested insertvalue')
                    agg = list(agg)
                    agg[d['idx'][0]] = val(*d['ev'])
                    env[dst] = agg
                elif op == 'extractvalue':
                    agg = val(d['at'], d['v'])
                    if len(d['idx']) != 1:
                        raise NotImplementedError('nested extractvalue')
                    env[dst] = agg[d['idx'][0]]
                elif op == 'br':
                    if d['c'] is None:
                        t = d['targets'][0]
                        edge[(bn, t)] = bc
                    else:
                        c = val(('int', 1), d['c'])
                        t1, t2 = d['targets']
                        edge[(bn, t1)] = '(and %s (= %s #b1))' % (bc, c)
                        edge[(bn, t2)] = '(and %s (= %s #b0))' % (bc, c)
                    for t in d['targets']:
                        if t in seen:
                            raise NotImplementedError('back edge: the kernel has a loop')
                        ec = edge[(bn, t)]
                        cond[t] = ec if t not in cond else '(or %s %s)' % (cond[t], ec)
                    for t in list(cond):
                        if t not in seen and cond[t] not in ('true',) and not cond[t].startswith(prefix):
                            cond[t] = fresh('bool', cond[t])
                elif op == 'ret':
                    v = val(d['rt'], d['v'])
                    ret_terms.append((bc, v if isinstance(v, list) else [v]))
                elif op == 'call' and d['callee'][1].startswith('@llvm.') and any(x in d['callee'][1] for x in ('lifetime', 'dbg', 'assume', 'experimental.noalias')):
                    pass
                else:
                    raise NotImplementedError('instruction outside the kernel subset: ' + s)
        if not ret_terms:
            raise NotImplementedError('no return reached')
        res = ret_terms[-1][1]
        for c, v in reversed(ret_terms[:-1]):
            res = ['(ite %s %s %s)' % (c, x, y) for x, y in zip(v, res)]
        widths = []
        rt = self.em.resolve(self.f.ret)
        if rt[0] == 'struct':
            widths = [self.width(ft) for ft in rt[1]]
        else:
            widths = [self.width(self.f.ret)]
        out = [fresh(w, r) for w, r in zip(widths, res)]
        return lines, out, widths
