#!/usr/bin/env python3
"""Build the real libCellML (g++, libstdc++, libxml2) from /repo's working tree into a cache keyed by a hash of src/.
Static archive, all symbols visible (internal helpers are needed by the differential runs), ASan+UBSan, guard on."""
import hashlib, os, subprocess, sys, re, shutil, fcntl, glob
from concurrent.futures import ThreadPoolExecutor

REPO = os.environ.get('VERIF_REPO', '/repo')
FW = os.path.dirname(os.path.abspath(__file__))
CACHE = os.environ.get('VERIF_CACHE', '/var/tmp/verif-cache')
XML2_INC = '/root/miniconda/include/libxml2'
XML2_LIBDIR = '/root/miniconda/lib'
GUARD = 'HSORBY_LIBCELLML_VERIF'
SAN = ['-fsanitize=address,undefined', '-fno-sanitize-recover=undefined', '-fno-omit-frame-pointer']


def src_hash():
    h = hashlib.sha1()
    for root, dirs, files in sorted(os.walk(os.path.join(REPO, 'src'))):
        dirs.sort()
        for f in sorted(files):
            p = os.path.join(root, f)
            h.update(p.encode())
            h.update(open(p, 'rb').read())
    h.update(open(os.path.join(REPO, 'CMakeLists.txt'), 'rb').read())
    return h.hexdigest()[:16]


def gen_headers(dst):
    os.makedirs(os.path.join(dst, 'libcellml'), exist_ok=True)
    shutil.copy(os.path.join(FW, 'gen/libcellml/exportdefinitions.h'), os.path.join(dst, 'libcellml/exportdefinitions.h'))
    cm = open(os.path.join(REPO, 'CMakeLists.txt')).read()
    ver = re.search(r'set\(_PROJECT_VERSION\s+([0-9.]+)\)', cm).group(1)
    a, b, c = (ver.split('.') + ['0', '0'])[:3]
    t = open(os.path.join(REPO, 'src/configure/versionconfig.in.h')).read()
    t = t.replace('@libCellML_VERSION_MAJOR@', a).replace('@libCellML_VERSION_MINOR@', b).replace('@libCellML_VERSION_PATCH@', c)
    t = t.replace('@LIBCELLML_LIBRARY_VERSION@', '0x%02x%02x%02x' % (int(a), int(b), int(c))).replace('@LIBCELLML_LIBRARY_VERSION_STRING@', ver)
    open(os.path.join(dst, 'versionconfig.h'), 'w').write(t)


def includes(gen):
    return ['-I' + gen, '-I' + os.path.join(REPO, 'src/api'), '-I' + os.path.join(REPO, 'src/api/libcellml/module'),
            '-I' + os.path.join(REPO, 'src'), '-isystem', XML2_INC]


def build(verbose=False):
    """returns dict(dir, lib, cxxflags, ldflags)"""
    h = src_hash()
    d = os.path.join(CACHE, 'lib-' + h)
    os.makedirs(CACHE, exist_ok=True)
    lock = open(os.path.join(CACHE, 'lock'), 'w')
    fcntl.flock(lock, fcntl.LOCK_EX)
    try:
        lib = os.path.join(d, 'libcellml_v.a')
        gen = os.path.join(d, 'gen')
        if not os.path.exists(os.path.join(d, 'ok')):
            # drop stale caches (disk is limited)
            olds = sorted([o for o in glob.glob(os.path.join(CACHE, 'lib-*')) if o != d], key=os.path.getmtime)
            for old in olds[:-12]:
                shutil.rmtree(old, ignore_errors=True)
            shutil.rmtree(d, ignore_errors=True)
            os.makedirs(d)
            gen_headers(gen)
            srcs = sorted(glob.glob(os.path.join(REPO, 'src/*.cpp')))
            srcs = [s for s in srcs if os.path.basename(s) not in ('debug.cpp',)]
            flags = ['-std=c++17', '-O0', '-g1', '-fPIC', '-w', '-D' + GUARD, '-Dcellml_EXPORTS', '-DXML_ERROR_CALLBACK_ARGUMENT_TYPE=const xmlError *'] + SAN + includes(gen)

            def cc(s):
                o = os.path.join(d, os.path.basename(s)[:-4] + '.o')
                r = subprocess.run(['g++'] + flags + ['-c', s, '-o', o], capture_output=True, text=True)
                return (s, r.returncode, r.stderr)
            with ThreadPoolExecutor(16) as ex:
                res = list(ex.map(cc, srcs))
            bad = [x for x in res if x[1] != 0]
            if bad:
                sys.stderr.write('real library does not compile:\n' + bad[0][2][:4000] + '\n')
                return None
            objs = [os.path.join(d, os.path.basename(s)[:-4] + '.o') for s in srcs]
            subprocess.check_call(['ar', 'rcs', lib] + objs)
            for o in objs:
                os.unlink(o)
            open(os.path.join(d, 'ok'), 'w').write(h)
        return dict(dir=d, lib=lib, hash=h,
                    cxxflags=['-std=c++17', '-O0', '-g1', '-w', '-D' + GUARD] + SAN + includes(gen),
                    ldflags=[lib, '-L' + XML2_LIBDIR, '-Wl,-rpath,' + XML2_LIBDIR, '-lxml2', '-lz'])
    finally:
        fcntl.flock(lock, fcntl.LOCK_UN)


if __name__ == '__main__':
    import time
    t = time.time()
    r = build(True)
    print(r, time.time() - t)
    sys.exit(0 if r else 2)
