#include <stdio.h>
#include <stdlib.h>
void __vrt_static_init(void);
void __vrt_dump_statics(FILE *f);
int main(int argc, char **argv)
{
    FILE *f = fopen(argv[1], "w");
    if (!f) return 8;
    __vrt_static_init();
    __vrt_dump_statics(f);
    fclose(f);
    return 0;
}
void __vrt_undefined_call(const char *name) { fprintf(stderr, "UNDEFINED-CALL %s during static initialisation\n", name); exit(4); }
