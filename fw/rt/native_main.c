#include <stdio.h>
#include <stdlib.h>
#include <stdint.h>
#include <string.h>
#include <dlfcn.h>
extern int32_t __vrt_given[]; extern uint32_t __vrt_ngiven, __vrt_nin; extern uint64_t __vrt_rng; extern int __vrt_native_failed;
extern int32_t __vrt_inputs[];
extern uint32_t __vstd_pending, __vstd_trunc_used;
/* usage: prog [--seed N] v0 v1 ...   (inputs beyond the given ones are drawn from the PRNG within their range) */
int main(int argc, char **argv)
{
    int i = 2;
    if (argc < 2) { printf("usage: prog <root> [--seed N] inputs...\n"); return 5; }
    void (*HARNESS)(void) = (void (*)(void))dlsym(RTLD_DEFAULT, argv[1]);
    if (!HARNESS) { printf("no such root %s\n", argv[1]); return 5; }
    if (i + 1 < argc && strcmp(argv[i], "--seed") == 0) { __vrt_rng ^= (uint64_t)strtoull(argv[i + 1], 0, 10) * 0x2545F4914F6CDD1Dull; if (!__vrt_rng) __vrt_rng = 1; i += 2; }
    for (; i < argc && __vrt_ngiven < 256; ++i) __vrt_given[__vrt_ngiven++] = (int32_t)atoi(argv[i]);
    HARNESS();
    printf("INPUTS");
    for (uint32_t k = 0; k < __vrt_nin && k < 256; ++k) printf(" %d", __vrt_inputs[k]);
    printf("\n");
    if (__vstd_trunc_used) { printf("CHECKFAIL: truncated string used in a comparison (string bound too small)\n"); return 3; }
    printf("DONE\n");
    return __vrt_native_failed ? 1 : 0;
}
void __vrt_undefined_call(const char *name) { printf("UNDEFINED-CALL %s\n", name); fflush(stdout); exit(4); }
