// Driver for the g++/libstdc++ build of a harness against the real libCellML (differential runs and replays).
#include <cstdio>
#include <cstdlib>
#include <cstdint>
#include <cstring>
#include <exception>
#include <typeinfo>
#include <dlfcn.h>
static int32_t given[256]; static uint32_t ngiven = 0, nin = 0; static int32_t inputs[256];
static uint64_t rng = 0x9E3779B97F4A7C15ull; static int failed = 0;
static uint32_t rnd() { rng ^= rng << 13; rng ^= rng >> 7; rng ^= rng << 17; return (uint32_t)(rng >> 16); }
extern "C" {
int __vstd_pending = 0;
int __vstd_trunc_used = 0;
int __vrt_in_range(int lo, int hi)
{
    int32_t v;
    if (nin < ngiven) { v = given[nin]; if (v < lo || v > hi) { printf("ASSUME-VIOLATED\n"); fflush(stdout); exit(77); } }
    else { uint64_t span = (uint64_t)((int64_t)hi - (int64_t)lo) + 1; v = (int32_t)((int64_t)lo + (int64_t)(rnd() % span)); }
    if (nin < 256) inputs[nin] = v;
    nin++;
    return v;
}
unsigned long __vrt_in64(void)
{
    uint64_t v;
    if (nin + 1 < ngiven) v = (uint64_t)(uint32_t)given[nin] | ((uint64_t)(uint32_t)given[nin + 1] << 32);
    else v = (uint64_t)rnd() | ((uint64_t)rnd() << 32);
    if (nin + 1 < 256) { inputs[nin] = (int32_t)(uint32_t)v; inputs[nin + 1] = (int32_t)(uint32_t)(v >> 32); }
    nin += 2;
    return v;
}
void __vrt_check(int cond, const char *msg) { if (!cond) { printf("CHECKFAIL: %s\n", msg); failed = 1; } }
void __vrt_assume(int cond) { if (!cond) { printf("ASSUME-VIOLATED\n"); fflush(stdout); exit(77); } }
void __vrt_out(const char *tag, long v) { printf("OUT %s %lld\n", tag, (long long)v); }
void __vrt_outs(const char *tag, const char *s) { printf("OUTS %s [%s]\n", tag, s); }
void __vrt_static_init(void) {}
}
int main(int argc, char **argv)
{
    int i = 2;
    setvbuf(stdout, nullptr, _IOLBF, 0);
    if (argc < 2) { printf("usage: prog <root> [--seed N] inputs...\n"); return 5; }
    void (*HARNESS)(void) = (void (*)(void))dlsym(RTLD_DEFAULT, argv[1]);
    if (!HARNESS) { printf("no such root %s\n", argv[1]); return 5; }
    if (i + 1 < argc && strcmp(argv[i], "--seed") == 0) { rng ^= (uint64_t)strtoull(argv[i + 1], 0, 10) * 0x2545F4914F6CDD1Dull; if (!rng) rng = 1; i += 2; }
    for (; i < argc && ngiven < 256; ++i) given[ngiven++] = (int32_t)atoi(argv[i]);
    try {
        HARNESS();
    } catch (const std::exception &e) {
        printf("CHECKFAIL: uncaught exception %s: %s\n", typeid(e).name(), e.what());
        failed = 1;
    } catch (...) {
        printf("CHECKFAIL: uncaught exception (unknown type)\n");
        failed = 1;
    }
    printf("INPUTS");
    for (uint32_t k = 0; k < nin && k < 256; ++k) printf(" %d", inputs[k]);
    printf("\nDONE\n");
    fflush(stdout);
    _Exit(failed ? 1 : 0);
}
