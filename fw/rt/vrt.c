#include "vrt.h"
#ifdef __CPROVER__
#define VRT_ASSERT(c, m) __CPROVER_assert(c, m)
#define VRT_ASSUME(c) __CPROVER_assume(c)
int nondet_int(void);
#else
#include <stdio.h>
int __vrt_native_failed = 0;
void __vrt_native_checkfail(const char *msg) { printf("CHECKFAIL: %s\n", msg); __vrt_native_failed = 1; }
void __vrt_native_stop(const char *msg) { printf("CHECKFAIL: %s\nDONE\n", msg); fflush(stdout); exit(1); }
#define VRT_ASSERT(c, m) do { if (!(c)) { printf("CHECKFAIL: %s\n", m); fflush(stdout); exit(1); } } while (0)
#define VRT_ASSUME(c) do { if (!(c)) { printf("ASSUME-VIOLATED\n"); fflush(stdout); exit(77); } } while (0)
#endif
uint32_t __vstd_trunc_used = 0;
uint32_t __vstd_pending = 0;
void __vrt_unreachable(void) { VRT_ASSERT(0, "llvm unreachable executed"); VRT_ASSUME(0); }
void __vrt_trap(void) { VRT_ASSERT(0, "llvm.trap"); VRT_ASSUME(0); }
void __vstd_fail(uint8_t *msg) {
#ifndef __CPROVER__
 fprintf(stderr, "vstd_fail: %s\n", (char*)msg);
#endif
 VRT_ASSERT(0, "vstd bound exceeded (harness bound too small)"); VRT_ASSUME(0); }
void __vstd_throw(uint32_t kind) { if (__vstd_pending == 0) __vstd_pending = kind; }
uint32_t __vstd_catch(uint32_t kind) { if (__vstd_pending == kind) { __vstd_pending = 0; return 1; } return 0; }
uint8_t *__vstd_alloc(uint64_t n) { uint8_t *p = malloc(n); VRT_ASSUME(p != 0); return p; }
void __vstd_free(uint8_t *p) {
#ifdef VSTD_REAL_FREE
 free(p);
#endif
}
uint32_t __cxa_atexit(void (*f)(uint8_t *), uint8_t *a, uint8_t *d) { return 0; }
void __cxa_pure_virtual(void) { VRT_ASSERT(0, "pure virtual call"); }
void *__vrt_typed_alloc(void *p) { VRT_ASSUME(p != 0); return p; }

/* ---- symbolic inputs ---- */
#define VRT_MAXIN 256
int32_t __vrt_inputs[VRT_MAXIN];
uint32_t __vrt_nin = 0;
#ifndef __CPROVER__
int32_t __vrt_given[VRT_MAXIN]; uint32_t __vrt_ngiven = 0; uint64_t __vrt_rng = 0x9E3779B97F4A7C15ull;
static uint32_t rnd(void) { __vrt_rng ^= __vrt_rng << 13; __vrt_rng ^= __vrt_rng >> 7; __vrt_rng ^= __vrt_rng << 17; return (uint32_t)(__vrt_rng >> 16); }
#endif
uint32_t __vrt_in_range(uint32_t ulo, uint32_t uhi)
{
    int32_t lo = (int32_t)ulo, hi = (int32_t)uhi, v;
#ifdef __CPROVER__
    v = nondet_int();
    __CPROVER_assume(v >= lo && v <= hi);
#else
    if (__vrt_nin < __vrt_ngiven) { v = __vrt_given[__vrt_nin]; VRT_ASSUME(v >= lo && v <= hi); }
    else { uint64_t span = (uint64_t)((int64_t)hi - (int64_t)lo) + 1; v = (int32_t)((int64_t)lo + (int64_t)(rnd() % span)); }
#endif
#ifndef VRT_NO_RECORD
    if (__vrt_nin < VRT_MAXIN) __vrt_inputs[__vrt_nin] = v;
    __vrt_nin++;
#endif
    return (uint32_t)v;
}
/* a full 64-bit input, recorded as two 32-bit halves (low, high) */
#ifdef __CPROVER__
unsigned long nondet_ulong(void);
#endif
uint64_t __vrt_in64(void)
{
    uint64_t v;
#ifdef __CPROVER__
    v = nondet_ulong();
#else
    if (__vrt_nin + 1 < __vrt_ngiven) v = (uint64_t)(uint32_t)__vrt_given[__vrt_nin] | ((uint64_t)(uint32_t)__vrt_given[__vrt_nin + 1] << 32);
    else v = (uint64_t)rnd() | ((uint64_t)rnd() << 32);
#endif
#ifndef VRT_NO_RECORD
    if (__vrt_nin + 1 < VRT_MAXIN) { __vrt_inputs[__vrt_nin] = (int32_t)(uint32_t)v; __vrt_inputs[__vrt_nin + 1] = (int32_t)(uint32_t)(v >> 32); }
    __vrt_nin += 2;
#endif
    return v;
}
void __vrt_assume(uint32_t cond) { VRT_ASSUME(cond); }
void __vrt_out(uint8_t *tag, uint64_t v)
{
#ifndef __CPROVER__
    printf("OUT %s %lld\n", (char *)tag, (long long)v);
#endif
}
void __vrt_outs(uint8_t *tag, uint8_t *s)
{
#ifndef __CPROVER__
    printf("OUTS %s [%s]\n", (char *)tag, (char *)s);
#endif
}
