#pragma once
#include <stdint.h>
#include <stddef.h>
#include <string.h>
#include <stdlib.h>
#include <math.h>
/* Runtime for the C produced by ir2c.py.  Three builds share it:
   - under CBMC (__CPROVER__): checks are assertions, inputs are nondeterministic;
   - natively with gcc ("model-native"): inputs come from argv, then from a seeded PRNG;
   the g++ build of the same harness against the real library uses real_main.cpp instead. */
void __vrt_unreachable(void);
void __vrt_trap(void);
void __vrt_static_init(void);
void *__vrt_typed_alloc(void *p);
void __vrt_native_checkfail(const char *msg);
#ifdef __CPROVER__
#define VRT_CHECK(c, m) __CPROVER_assert((c), m)
#else
#define VRT_CHECK(c, m) do { if (!(c)) __vrt_native_checkfail(m); } while (0)
#endif
/* a check after which the path cannot sensibly continue (null dereference): assert, then stop exploring / exit */
#ifdef __CPROVER__
/* cutting the path (assume) makes every later guard carry the condition: 28 GB instead of 4 GB on the Logger harness; so it is
   off by default and the driver retries a query with -DVRT_STOP only when exploring behind a null dereference exhausted memory */
#ifdef VRT_STOP
#define VRT_CHECK_STOP(c, m) do { __CPROVER_assert((c), m); __CPROVER_assume(c); } while (0)
#else
#define VRT_CHECK_STOP(c, m) __CPROVER_assert((c), m)
#endif
#else
void __vrt_native_stop(const char *msg);
#define VRT_CHECK_STOP(c, m) do { if (!(c)) __vrt_native_stop(m); } while (0)
#endif
