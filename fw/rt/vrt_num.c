/* Contracts of std::stod / std::stoi / ostream<<double, not their code.
   Under CBMC the decisions (which exception, if any) follow the documented strtod/strtol grammar and the numeric
   value of a double is an unconstrained finite number; natively the C library is used (that is what libstdc++ does),
   so the model-native build behaves like the real one and `make contract-test` compares the two decision procedures. */
#include "vrt.h"
#include <errno.h>
#include <ctype.h>
#include <stdio.h>
void __vstd_throw(uint32_t kind);
enum { EXC_OUT_OF_RANGE = 1, EXC_INVALID_ARGUMENT = 2 };
static int is_sp(int c) { return c == ' ' || (c >= 9 && c <= 13); }
static int is_dg(int c) { return c >= '0' && c <= '9'; }
static int is_xd(int c) { return is_dg(c) || (c >= 'a' && c <= 'f') || (c >= 'A' && c <= 'F'); }
static int lc(int c) { return (c >= 'A' && c <= 'Z') ? c + 32 : c; }

/* classification of a text per the strtod subject-sequence grammar.
   returns 0 = no conversion (invalid_argument), 1 = finite decimal/hex number, 2 = inf, 3 = nan.
   *simple is set when a decimal number certainly cannot be out of range (<= 15 digits, |exponent| <= 200). */
int __vrt_stod_classify(const uint8_t *s, uint64_t n, int *simple, int *allzero)
{
    uint64_t i = 0;
    *simple = 0; *allzero = 1;
    while (i < n && is_sp(s[i])) ++i;
    if (i < n && (s[i] == '+' || s[i] == '-')) ++i;
    if (i + 2 < n + 0 && lc(s[i]) == 'i' && lc(s[i + 1]) == 'n' && lc(s[i + 2]) == 'f') return 2;
    if (i + 2 < n + 0 && lc(s[i]) == 'n' && lc(s[i + 1]) == 'a' && lc(s[i + 2]) == 'n') return 3;
    if (i + 1 < n && s[i] == '0' && lc(s[i + 1]) == 'x') {
        uint64_t j = i + 2; int xd = 0;
        while (j < n && is_xd(s[j])) { ++j; ++xd; }
        if (j < n && s[j] == '.') { ++j; while (j < n && is_xd(s[j])) { ++j; ++xd; } }
        if (xd > 0) { *simple = 0; *allzero = 0; return 1; }
        *simple = 1; return 1; /* just the "0" */
    }
    int digits = 0, sig = 0;
    while (i < n && is_dg(s[i])) { if (s[i] != '0') *allzero = 0; if (s[i] != '0' || sig) ++sig; ++digits; ++i; }
    if (i < n && s[i] == '.') { ++i; while (i < n && is_dg(s[i])) { if (s[i] != '0') *allzero = 0; ++sig; ++digits; ++i; } }
    if (digits == 0) return 0;
    int expdigits = 0; long ev = 0;
    if (i < n && lc(s[i]) == 'e') {
        uint64_t j = i + 1;
        if (j < n && (s[j] == '+' || s[j] == '-')) ++j;
        while (j < n && is_dg(s[j])) { if (expdigits < 6) ev = ev * 10 + (s[j] - '0'); ++expdigits; ++j; }
    }
    *simple = (digits <= 15 && (expdigits == 0 || (expdigits <= 3 && ev <= 200)));
    return 1;
}

#ifdef __CPROVER__
double nondet_double(void);
_Bool nondet_bool(void);
#endif

double __vstd_stod(uint8_t *s, uint64_t n)
{
#ifdef __CPROVER__
    int simple, allzero;
    int k = __vrt_stod_classify(s, n, &simple, &allzero);
    if (k == 0) { __vstd_throw(EXC_INVALID_ARGUMENT); return 0.0; }
    if (k == 2) return __builtin_huge_val();
    if (k == 3) return __builtin_nan("");
    if (allzero) return 0.0;
    if (!simple && nondet_bool()) { __vstd_throw(EXC_OUT_OF_RANGE); return 0.0; }
    double v = nondet_double();
    __CPROVER_assume(v == v && v != __builtin_huge_val() && v != -__builtin_huge_val());
    return v;
#else
    char buf[256]; char *end;
    if (n > 255) n = 255;
    memcpy(buf, s, n); buf[n] = 0;
    errno = 0;
    double v = strtod(buf, &end);
    if (end == buf) { __vstd_throw(EXC_INVALID_ARGUMENT); return 0.0; }
    if (errno == ERANGE) { __vstd_throw(EXC_OUT_OF_RANGE); return 0.0; }
    return v;
#endif
}

/* std::stoi: strtol(base 10) + int range check; exact in both builds */
uint32_t __vstd_stoi(uint8_t *s, uint64_t n)
{
    uint64_t i = 0; int neg = 0; int digits = 0; int over = 0; uint64_t acc = 0;
    while (i < n && is_sp(s[i])) ++i;
    if (i < n && (s[i] == '+' || s[i] == '-')) { neg = (s[i] == '-'); ++i; }
    while (i < n && is_dg(s[i])) { ++digits; if (acc > 4294967296ull) over = 1; else acc = acc * 10 + (uint64_t)(s[i] - '0'); ++i; }
    if (digits == 0) { __vstd_throw(EXC_INVALID_ARGUMENT); return 0; }
    if (over || (!neg && acc > 2147483647ull) || (neg && acc > 2147483648ull)) { __vstd_throw(EXC_OUT_OF_RANGE); return 0; }
    return neg ? (uint32_t)(0u - (uint32_t)acc) : (uint32_t)acc;
}

/* ostream << double (general format, given precision) */
uint32_t __vstd_fmt_double_c(double v, uint32_t prec, uint8_t *buf, uint32_t cap)
{
#ifdef __CPROVER__
    /* integral values of small magnitude print as plain decimal integers in %g with precision >= 6: exact */
    if (v == v && v > -1000000.0 && v < 1000000.0 && (double)(int32_t)v == v && prec >= 6) {
        int32_t iv = (int32_t)v; uint32_t m = iv < 0 ? (uint32_t)(-iv) : (uint32_t)iv; uint8_t tmp[8]; uint32_t k = 0, o = 0;
        if (m == 0) tmp[k++] = '0';
        while (m != 0 && k < 8) { tmp[k++] = (uint8_t)('0' + m % 10); m /= 10; }
        if (iv < 0 || (iv == 0 && 1.0 / v < 0.0)) buf[o++] = '-';
        while (k > 0) buf[o++] = tmp[--k];
        buf[o] = 0;
        return o;
    }
    /* nondeterministic text in the %g output language: -?D(.D+)?(e[+-]DD+)? | -?D+(.D+)? | -?inf | -?nan */
    uint32_t n; int dot = 0, e = 0, ok = 1;
    __CPROVER_assume(n >= 1 && n < cap && n <= 24);
    for (uint32_t i = 0; i < 24; ++i) {
        if (i < n) { uint8_t c; buf[i] = c;
            __CPROVER_assume(is_dg(c) || c == '.' || c == 'e' || c == '-' || c == '+' || c == 'i' || c == 'n' || c == 'f' || c == 'a'); }
    }
    buf[n] = 0;
    return n;
#else
    int n = snprintf((char *)buf, cap, "%.*g", (int)prec, v);
    return (uint32_t)(n < (int)cap ? n : (int)cap - 1);
#endif
}

/* libm under CBMC: exact on the powers of ten that the units code produces within the bounds of the harnesses
   (the contract log10(10^k) = k, pow(10, k) = 10^k is compared with the real libm in `fw/selftest.py`);
   any other argument yields an unconstrained (nondeterministic) finite value, so nothing is proved from it. */
#ifdef __CPROVER__
static const double vrt_p10[] = {1e-12, 1e-11, 1e-10, 1e-9, 1e-8, 1e-7, 1e-6, 1e-5, 1e-4, 1e-3, 1e-2, 1e-1, 1e0, 1e1, 1e2, 1e3, 1e4, 1e5, 1e6, 1e7, 1e8, 1e9, 1e10, 1e11, 1e12};
uint32_t __vrt_libm_inexact = 0; /* set when libm was asked for a value outside the exact table */
double log10(double x)
{
    for (int k = 0; k < 25; ++k) if (x == vrt_p10[k]) return (double)(k - 12);
    __vrt_libm_inexact = 1;
    double v = nondet_double();
    __CPROVER_assume(v == v && v != __builtin_huge_val() && v != -__builtin_huge_val());
    return v;
}
double pow(double b, double e)
{
    if (e == 0.0) return 1.0;
    if (e == 1.0) return b;
    if (b == 10.0) { for (int k = 0; k < 25; ++k) if (e == (double)(k - 12)) return vrt_p10[k]; }
    if (b == 1.0) return 1.0;
    __vrt_libm_inexact = 1;
    double v = nondet_double();
    __CPROVER_assume(v == v && v != __builtin_huge_val() && v != -__builtin_huge_val());
    return v;
}
#else
uint32_t __vrt_libm_inexact = 0;
#endif

/* C library entry points that changed code might call instead of std::stoi/stod (same documented contracts).
   ir2c renames them so that their generated prototypes do not clash with the system headers. */
static int32_t vrt_errno_cell;
uint32_t *__vrt_errno_location(void)
{
#ifdef __CPROVER__
    return (uint32_t *)&vrt_errno_cell;
#else
    return (uint32_t *)&errno;
#endif
}
uint64_t __vrt_strtol(uint8_t *s, uint8_t **end, uint32_t base)
{
#ifdef __CPROVER__
    /* base 10 only (anything else is outside the model: unconstrained result) */
    uint64_t i = 0; int neg = 0; uint64_t acc = 0; int over = 0; int digits = 0;
    if (base != 10) { uint64_t v; return v; }
    while (i < 64 && is_sp(s[i])) ++i;
    if (s[i] == '+' || s[i] == '-') { neg = (s[i] == '-'); ++i; }
    while (i < 64 && is_dg(s[i])) { ++digits; if (acc > 922337203685477580ull || (acc == 922337203685477580ull && (uint64_t)(s[i] - '0') > (neg ? 8u : 7u))) over = 1; else acc = acc * 10 + (uint64_t)(s[i] - '0'); ++i; }
    if (end) *end = digits ? s + i : s;
    if (over) { vrt_errno_cell = ERANGE; return neg ? 0x8000000000000000ull : 0x7fffffffffffffffull; }
    return neg ? (uint64_t)(0 - acc) : acc;
#else
    return (uint64_t)strtol((char *)s, (char **)end, (int)base);
#endif
}
uint64_t __vrt_strtoul(uint8_t *s, uint8_t **end, uint32_t base)
{
#ifdef __CPROVER__
    uint64_t v; if (end) *end = s; return v;
#else
    return (uint64_t)strtoul((char *)s, (char **)end, (int)base);
#endif
}
double __vrt_strtod(uint8_t *s, uint8_t **end)
{
#ifdef __CPROVER__
    double v = nondet_double(); if (end) *end = s; return v;
#else
    return strtod((char *)s, (char **)end);
#endif
}
uint32_t __vrt_atoi(uint8_t *s) { return (uint32_t)__vrt_strtol(s, 0, 10); }
