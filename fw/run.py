#!/usr/bin/env python3
import importlib, json, os, sys, traceback
FW = os.path.dirname(os.path.abspath(__file__))
VERIF = os.path.dirname(FW)
sys.path.insert(0, FW)
sys.path.insert(0, os.path.join(VERIF, 'checks'))
import vfw


def main():
    if len(sys.argv) < 3:
        print('usage: check <id> quick|thorough | --replay <path>')
        return 2
    prop = sys.argv[1].upper()
    if sys.argv[2] == '--replay':
        rp = json.load(open(sys.argv[3]))
        fw = vfw.Fw(prop, 'quick')
        rep = fw.replay(rp['harness'], rp['root'], rp['inputs'], rp.get('defines', ()), rp.get('check'), rp.get('stack_mb'))
        print(json.dumps(rep, indent=1))
        if rep['reproduced']:
            print('VIOLATION property=%s replay=%s' % (prop, sys.argv[3]))
            return 1
        return 0
    tier = sys.argv[2]
    if tier not in ('quick', 'thorough'):
        print('tier must be quick or thorough')
        return 2
    mod = importlib.import_module(prop.lower())
    fw = vfw.Fw(prop, tier)
    try:
        mod.run(fw)
        return fw.finish(**getattr(mod, 'FINISH', {}))
    except vfw.FrameworkError as e:
        fw.problems.append(str(e))
        print('FRAMEWORK ERROR:', e)
        rc = fw.finish(**getattr(mod, 'FINISH', {}))
        return 1 if rc == 1 else 2
    except Exception:
        traceback.print_exc()
        fw.problems.append('internal error')
        try:
            fw.finish()
        except Exception:
            pass
        return 2


if __name__ == '__main__':
    sys.exit(main())
