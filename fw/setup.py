#!/usr/bin/env python3
"""setup: offline self-test of the tool chain the checks need (nothing is downloaded or cached)."""
import os, shutil, subprocess, sys
need = ['clang++-14', 'opt-14', 'llvm-link-14', 'cbmc', 'gcc', 'g++', 'z3', 'cvc5']
missing = [t for t in need if shutil.which(t) is None]
if missing:
    print('missing tools:', missing)
    sys.exit(1)
os.makedirs('/var/tmp/verif-cache', exist_ok=True)
here = os.path.dirname(os.path.abspath(__file__))
r = subprocess.run([sys.executable, '-c', 'import sys; sys.path.insert(0, %r); import ir2c, ir2smt, vfw, reallib' % here])
sys.exit(r.returncode)
