#!/usr/bin/env python3
"""vfw: the verification framework shared by all checks.

pipeline per model:   /repo/src/*.cpp + harness.cpp --clang/vstd--> LLVM IR --opt--> --llvm-link--> --ir2c--> C
deciding step:        cbmc on that C (bounded, unwinding assertions); z3/cvc5 on exported SMT for pure kernels
honesty steps:        witness twins (vacuity), model-native vs real-library differential runs, replay of every
                      counterexample against the real library before anything is reported.
"""
import atexit, hashlib, json, os, re, resource, shutil, signal, subprocess, sys, tempfile, threading, time
from concurrent.futures import ThreadPoolExecutor

FW = os.path.dirname(os.path.abspath(__file__))
VERIF = os.path.dirname(FW)
REPO = os.environ.get('VERIF_REPO', '/repo')
sys.path.insert(0, FW)
import reallib  # noqa: E402

GUARD = 'HSORBY_LIBCELLML_VERIF'
OBJ_SOURCES = ['entity', 'namedentity', 'parentedentity', 'importedentity', 'componententity', 'component', 'variable',
               'units', 'reset', 'importsource', 'model', 'utilities', 'internaltypes', 'commonutils', 'logger']
TRY_COUNTS_FILE = os.path.join(FW, 'try_blocks.json')


class FrameworkError(Exception):
    pass


def sh(cmd, **kw):
    return subprocess.run(cmd, capture_output=True, text=True, **kw)


def _limits(mem_gb):
    def f():
        os.setsid()
        if mem_gb:
            b = int(mem_gb * (1 << 30))
            resource.setrlimit(resource.RLIMIT_AS, (b, b))
    return f


_children = set()


def _kill_children(*a):
    for p in list(_children):
        try:
            os.killpg(p.pid, signal.SIGKILL)
        except Exception:
            pass
    if a:   # called as a signal handler
        os._exit(143)


atexit.register(_kill_children)
for _sig in (signal.SIGTERM, signal.SIGINT, signal.SIGHUP):
    try:
        signal.signal(_sig, _kill_children)
    except Exception:
        pass


def run_limited(cmd, timeout, mem_gb=None, cwd=None, env=None, cancel=None):
    """run cmd in its own process group with wall/memory limits. returns (rc, out, err, wall, maxrss_kb, timed_out)"""
    t0 = time.time()
    tf = tempfile.NamedTemporaryFile(prefix='vtime-', dir='/var/tmp', delete=False)
    tf.close()
    p = subprocess.Popen(['/usr/bin/time', '-f', '%M', '-o', tf.name] + cmd, stdout=subprocess.PIPE, stderr=subprocess.PIPE, text=True,
                         preexec_fn=_limits(mem_gb), cwd=cwd, env=env)
    _children.add(p)
    to = False
    deadline = time.time() + timeout
    while True:
        try:
            out, err = p.communicate(timeout=2)
            break
        except subprocess.TimeoutExpired:
            if time.time() > deadline or (cancel is not None and cancel.is_set()):
                to = True
                try:
                    os.killpg(p.pid, signal.SIGKILL)
                except ProcessLookupError:
                    pass
                out, err = p.communicate()
                break
    _children.discard(p)
    rss = 0
    try:
        txt = open(tf.name).read().strip().split('\n')[-1]
        rss = int(txt)
    except Exception:
        pass
    os.unlink(tf.name)
    return p.returncode, out, err, time.time() - t0, rss, to


class Model:
    def __init__(self, name, d, c, meta, harness, defines, sources):
        self.name, self.dir, self.c, self.meta, self.harness, self.defines, self.sources = name, d, c, meta, harness, defines, sources
        self.native_bins = {}


class Fw:
    def __init__(self, prop, tier):
        self.prop, self.tier = prop, tier
        self.seed = int(os.environ.get('VERIF_SEED', '1'))
        self.t0 = time.time()
        self.scratch = tempfile.mkdtemp(prefix='verif-%s-' % prop, dir='/var/tmp')
        atexit.register(self.cleanup)
        self.gen = os.path.join(self.scratch, 'gen')
        reallib.gen_headers(self.gen)
        self.lock = threading.Lock()
        self.build_lock = threading.Lock()
        self.obligations = []   # dict per solver query
        self.witnesses = []
        self.diff_runs = 0
        self.diff_disagreements = []
        self.replays = []
        self.violations = []    # reproduced and unlisted
        self.known_hits = []
        self.problems = []      # framework trouble -> exit 2
        self.samples = []
        self.models = {}
        self.assumptions = []
        self.encoded = {}
        self.stubs = set()
        self.solver_wall = 0.0
        self.peak_rss = 0
        self._real = None
        self._realbins = {}
        self.kf = json.load(open(os.path.join(VERIF, 'known_findings.json')))
        self.notes = []
        self.extra_cov = {}
        self._crash_reported = set()

    def cleanup(self):
        shutil.rmtree(self.scratch, ignore_errors=True)

    def log(self, *a):
        print('[%s %6.1fs]' % (self.prop, time.time() - self.t0), *a, flush=True)

    # ------------------------------------------------------------------ building the model
    def clang_flags(self, defines, no_destroy=True):
        fl = ['-std=c++17', '-O0', '-Xclang', '-disable-O0-optnone', '-fno-exceptions', '-fno-inline', '-nostdinc++',
              '-isystem', os.path.join(FW, 'vstd'), '-I' + self.gen, '-I' + os.path.join(REPO, 'src/api'),
              '-I' + os.path.join(REPO, 'src/api/libcellml/module'), '-I' + os.path.join(REPO, 'src'),
              '-I' + os.path.join(VERIF, 'harness'), '-isystem', reallib.XML2_INC,
              '-Dtry=if(true)', '-Dcatch(x)=if(std::__vstd_catch_t<x>())', '-D' + GUARD, '-DVERIF_MODEL=1',
              '-DXML_ERROR_CALLBACK_ARGUMENT_TYPE=const xmlError *', '-Wno-everything']
        if no_destroy:
            fl.append('-DVSTD_NO_DESTROY')
        fl += ['-D' + x for x in defines]
        return fl

    def _cc(self, src, out, flags):
        r = sh(['clang++-14'] + flags + ['-S', '-emit-llvm', src, '-o', out + '.tmp'])
        if r.returncode != 0:
            raise FrameworkError('encoding not regenerable: clang failed on %s\n%s' % (src, r.stderr[:3000]))
        r = sh(['opt-14', '-S', '-passes=sroa,early-cse,simplifycfg,adce', out + '.tmp', '-o', out])
        if r.returncode != 0:
            raise FrameworkError('opt failed on %s\n%s' % (src, r.stderr[:2000]))
        os.unlink(out + '.tmp')

    def check_try_blocks(self, files):
        """the try/catch lowering is exact only for the reviewed try-blocks; refuse to run if their number changes"""
        known = json.load(open(TRY_COUNTS_FILE))
        for f in files:
            p = os.path.join(REPO, 'src', f + '.cpp')
            n = len(re.findall(r'^\s*try\s*\{', open(p).read(), re.M))
            if n > known.get(f, 0):   # fewer try-blocks cannot invalidate the lowering; a new one has to be reviewed
                raise FrameworkError('encoding not regenerable: %s.cpp has %d try-blocks, %d were reviewed (fw/try_blocks.json)' % (f, n, known.get(f, 0)))

    def build_model(self, name, harness, roots, sources=OBJ_SOURCES, defines=(), no_destroy=True, extra_files=()):
        """sources: names of /repo/src/<n>.cpp compiled as whole translation units; harness: path under /verif/harness"""
        defines = list(defines)
        d = os.path.join(self.scratch, name)
        os.makedirs(d, exist_ok=True)
        self.check_try_blocks(sources)
        flags = self.clang_flags(defines, no_destroy)
        hp = os.path.join(VERIF, 'harness', harness)
        jobs = [(os.path.join(REPO, 'src', s + '.cpp'), os.path.join(d, s + '.ll')) for s in sources]
        jobs += [(f, os.path.join(d, 'x_' + os.path.basename(f) + '.ll')) for f in list(extra_files) + [os.path.join(FW, 'vstd/vstd_impl.cpp')]]
        jobs.append((hp, os.path.join(d, 'harness.ll')))
        with ThreadPoolExecutor(16) as ex:
            list(ex.map(lambda j: self._cc(j[0], j[1], flags), jobs))
        linked = os.path.join(d, 'all.linked')
        r = sh(['llvm-link-14', '-S', '-o', linked] + [j[1] for j in jobs])
        if r.returncode != 0:
            raise FrameworkError('llvm-link failed: ' + r.stderr[:2000])
        c = os.path.join(d, 'out.c')
        cmd = [sys.executable, os.path.join(FW, 'ir2c.py'), linked, c]
        for rt in roots:
            cmd += ['--root', rt]
        r = sh(cmd)
        if r.returncode != 0:
            raise FrameworkError('encoding not regenerable: ir2c failed for %s\n%s' % (name, r.stderr[-3000:]))
        meta = json.load(open(c + '.json'))
        # precompute the constant tables: run the static initialisers natively once, dump the typed result for CBMC
        inc = os.path.join(d, 'statics.inc')
        if meta.get('static_targets'):
            db = os.path.join(d, 'dumpstatics')
            r = sh(['gcc', '-std=gnu11', '-w', '-O1', '-DVRT_DUMP_STATICS', '-I', os.path.join(FW, 'rt'), c, os.path.join(FW, 'rt/vrt.c'),
                    os.path.join(FW, 'rt/vrt_num.c'), os.path.join(FW, 'rt/dump_main.c'), '-lm', '-o', db])
            if r.returncode != 0:
                raise FrameworkError('static-table dumper does not compile: ' + r.stderr[:2000])
            r = sh([db, inc])
            if r.returncode != 0:
                raise FrameworkError('static tables cannot be precomputed: rc=%d %s' % (r.returncode, r.stderr[:500]))
            os.unlink(db)
        else:
            open(inc, 'w').write('')
        for j in jobs:
            os.unlink(j[1])
        os.unlink(linked)
        m = Model(name, d, c, meta, hp, defines, list(sources))
        self.models[name] = m
        with self.lock:
            for f in meta['functions']:
                self.encoded.setdefault(f, name)
            self.stubs |= set(meta['stubs'])
        return m

    # ------------------------------------------------------------------ solver
    def cbmc(self, model, root, unwind=None, unwindset=None, timeout=300, mem_gb=12, cdefs=(), trace=True, extra=(), label=None,
             expect='SUCCESS', kind='obligation', symbolic=None, pointer_check=False, object_bits=14, backend='sat', cancel=None, record=True):
        """one solver query. returns dict(status, failed=[(msg, inputs)], wall, rss_kb)."""
        cmd = ['cbmc', model.c, os.path.join(FW, 'rt/vrt.c'), os.path.join(FW, 'rt/vrt_num.c'), '-I', os.path.join(FW, 'rt'), '--function', root,
               '--unwinding-assertions', '--drop-unused-functions', '--no-standard-checks', '--bounds-check',
               '--object-bits', str(object_bits)]
        if pointer_check:
            cmd.append('--pointer-check')
        cmd += ['-D', 'VRT_PRECOMPUTED_STATICS', '-I', model.dir]
        if unwind is not None:
            cmd += ['--unwind', str(unwind)]
        if unwindset:
            cmd += ['--unwindset', ','.join('%s:%d' % kv for kv in unwindset.items())]
        if trace:
            cmd += ['--trace']
        for x in cdefs:
            cmd += ['-D', x]
        cmd += list(extra)
        env = None
        if backend == 'cadical':
            cmd += ['--sat-solver', 'cadical']
        elif backend == 'kissat':
            cmd += ['--external-sat-solver', 'kissat']
        elif backend == 'z3':
            cmd += ['--z3']
        elif backend == 'cvc5':
            cmd += ['--cvc5']
        elif backend == 'cvc5int':
            cmd += ['--cvc5', '--slice-formula']
            env = dict(os.environ, PATH=os.path.join(FW, 'shim') + ':' + os.environ.get('PATH', ''))
        rc, out, err, wall, rss, to = run_limited(cmd, timeout, mem_gb, env=env, cancel=cancel)
        if not to and 'VERIFICATION' not in out.replace('VERIFICATION ERROR', '') and ('ut of memory' in out + err or 'bad_alloc' in out + err) and 'VRT_STOP' not in cdefs:
            # exploring behind a failed null check can exhaust memory: retry once with the path cut after such a failure
            rc, out, err, wall2, rss, to = run_limited(cmd + ['-D', 'VRT_STOP'], timeout, mem_gb, env=env, cancel=cancel)
            wall += wall2
        res = dict(label=label or root, root=root, model=model.name, wall=round(wall, 2), rss_kb=rss, failed=[], unwind=unwind,
                   unwindset=unwindset, kind=kind, symbolic=symbolic, backend=backend)
        if to:
            res['status'] = 'TIMEOUT'
        elif 'VERIFICATION SUCCESSFUL' in out:
            res['status'] = 'SUCCESS'
        elif 'VERIFICATION FAILED' in out:
            res['status'] = 'FAILURE'
            res['failed'] = self.parse_failures(out)
        else:
            res['status'] = 'ERROR'
            res['detail'] = (out[-1500:] + err[-1500:])
        m = re.search(r'(\d+) variables, (\d+) clauses', out)
        if m:
            res['sat_vars'], res['sat_clauses'] = int(m.group(1)), int(m.group(2))
        m = re.search(r'\*\* (\d+) of (\d+) failed', out)
        if m:
            res['n_props'] = int(m.group(2))
        if cancel is not None and cancel.is_set() and to:
            res['status'] = 'CANCELLED'
        with self.lock:
            self.solver_wall += wall
            self.peak_rss = max(self.peak_rss, rss)
            if not record:
                pass
            elif kind == 'obligation':
                self.obligations.append(res)
            elif kind == 'witness':
                self.witnesses.append(res)
        return res

    def portfolio(self, model, root, backends=('sat', 'z3', 'cvc5int'), **kw):
        """the same query on several back ends at once; the first definite verdict wins, the others are cancelled.
        Verdicts that did complete must agree (else the encoding is suspect -> problem)."""
        cancel = threading.Event()
        results = []

        def one(b):
            r = self.cbmc(model, root, backend=b, cancel=cancel, record=False, **kw)
            if r['status'] in ('SUCCESS', 'FAILURE'):
                cancel.set()
            results.append(r)
            return r
        with ThreadPoolExecutor(len(backends)) as ex:
            list(ex.map(one, backends))
        definite = [r for r in results if r['status'] in ('SUCCESS', 'FAILURE')]
        if not definite:
            best = results[0]
        else:
            best = definite[0]
            if len({r['status'] for r in definite}) > 1:
                self.problems.append('%s: back ends disagree: %s' % (best['label'], [(r['backend'], r['status']) for r in definite]))
        best['portfolio'] = [(r['backend'], r['status'], r['wall']) for r in results]
        with self.lock:
            (self.witnesses if kw.get('kind') == 'witness' else self.obligations).append(best)
        return best

    def loops(self, model, root):
        r = sh(['cbmc', model.c, os.path.join(FW, 'rt/vrt.c'), os.path.join(FW, 'rt/vrt_num.c'), '-I', os.path.join(FW, 'rt'), '--function', root,
                '--drop-unused-functions', '--show-loops', '-D', 'VRT_PRECOMPUTED_STATICS', '-I', model.dir])
        return re.findall(r'^Loop ([^\n:]+):', r.stdout, re.M)

    def unwindset(self, model, root, rules):
        """rules: [(regex on the loop name, bound)], first match wins; loops without a match use the global --unwind"""
        us = {}
        for l in self.loops(model, root):
            for rx, k in rules:
                if re.search(rx, l):
                    us[l] = k
                    break
        return us

    @staticmethod
    def parse_failures(out):
        fails = []
        for m in re.finditer(r'^\[([^\]]+)\] line (\d+) (.*): FAILURE$', out, re.M):
            msg = m.group(3)
            if msg.startswith('unwinding assertion'):
                msg += ' [' + m.group(1) + ']'
            fails.append(dict(prop=m.group(1), line=int(m.group(2)), msg=msg, inputs=None))
        # traces
        parts = re.split(r'^Trace for ([^\n:]+):\n', out, flags=re.M)
        traces = {}
        for i in range(1, len(parts) - 1, 2):
            traces[parts[i].strip()] = parts[i + 1]
        for f in fails:
            tr = traces.get(f['prop'])
            if tr is None:
                continue
            vals = {}
            for mm in re.finditer(r'__vrt_inputs\[(\d+)l?l?\]=(-?\d+)', tr):
                vals[int(mm.group(1))] = int(mm.group(2))
            n = 0
            for mm in re.finditer(r'__vrt_nin=(\d+)', tr):
                n = max(n, int(mm.group(1)))
            f['inputs'] = [vals.get(i, 0) for i in range(max(n, (max(vals) + 1) if vals else 0))]
        return fails

    # ------------------------------------------------------------------ native model / real library builds
    def native_bin(self, model, cdefs=()):
        key = tuple(cdefs)
        with self.build_lock:
            return self._native_bin(model, key, cdefs)

    def _native_bin(self, model, key, cdefs):
        if key in model.native_bins:
            return model.native_bins[key]
        b = os.path.join(model.dir, 'native_%s' % hashlib.sha1(repr(key).encode()).hexdigest()[:6])
        cmd = ['gcc', '-std=gnu11', '-w', '-O1', '-rdynamic', '-I', os.path.join(FW, 'rt')] + ['-D' + x for x in cdefs] + \
              [model.c, os.path.join(FW, 'rt/vrt.c'), os.path.join(FW, 'rt/vrt_num.c'), os.path.join(FW, 'rt/native_main.c'), '-lm', '-ldl', '-o', b]
        r = sh(cmd)
        if r.returncode != 0:
            raise FrameworkError('generated C does not compile natively: ' + r.stderr[:3000])
        model.native_bins[key] = b
        return b

    def reallib(self):
        with self.lock:
            if self._real is not None and not (os.path.exists(self._real['lib']) and os.path.exists(os.path.join(self._real['dir'], 'gen', 'libcellml', 'exportdefinitions.h'))):
                self._real = None   # the cache entry was evicted by a concurrent run: build it again
                self._realbins = {}
            if self._real is None:
                self.log('building the real library from', REPO)
                self._real = reallib.build()
                if self._real is None:
                    raise FrameworkError('real library does not build from the working tree')
            return self._real

    def real_bin(self, harness, defines=()):
        """g++/libstdc++ build of the same harness source against the real library (all roots; chosen at run time)"""
        key = (harness, tuple(defines))
        rl = self.reallib()
        with self.build_lock:
            return self._real_bin(harness, defines, key, rl)

    def _real_bin(self, harness, defines, key, rl):
        if key in self._realbins:
            return self._realbins[key]
        b = os.path.join(self.scratch, 'real_%s' % hashlib.sha1(repr(key).encode()).hexdigest()[:10])
        hp = os.path.join(VERIF, 'harness', harness)
        cmd = ['g++'] + rl['cxxflags'] + ['-rdynamic', '-I' + os.path.join(VERIF, 'harness'), '-DVERIF_REAL=1'] + ['-D' + x for x in defines] + \
              [hp, os.path.join(FW, 'rt/real_main.cpp'), '-o', b] + rl['ldflags'] + ['-ldl', '-Wl,--allow-multiple-definition']
        r = sh(cmd)
        if r.returncode != 0:
            raise FrameworkError('harness %s does not build against the real library: %s' % (harness, r.stderr[:3000]))
        self._realbins[key] = b
        return b

    @staticmethod
    def run_bin(b, args, timeout=60, stack_mb=None):
        env = dict(os.environ, ASAN_OPTIONS='detect_leaks=0:abort_on_error=0:exitcode=99', UBSAN_OPTIONS='print_stacktrace=0:exitcode=98')
        pre = None
        if stack_mb:
            def pre():
                resource.setrlimit(resource.RLIMIT_STACK, (stack_mb << 20, stack_mb << 20))
        try:
            r = subprocess.run([b] + [str(a) for a in args], capture_output=True, text=True, timeout=timeout, env=env, preexec_fn=pre, errors='replace')
            return r.returncode, r.stdout, r.stderr
        except subprocess.TimeoutExpired:
            return -999, '', 'timeout'

    @staticmethod
    def observable(out):
        return [l for l in out.split('\n') if l.startswith(('OUT', 'CHECKFAIL', 'INPUTS', 'DONE', 'ASSUME'))]

    def differential(self, model, root, harness, vectors=(), seeds=0, defines=(), cdefs=(), ignore_checks=()):
        """run model-native (gcc build of the generated C) and the real-library build of the same harness on the same inputs"""
        nb = self.native_bin(model, cdefs)
        rb = self.real_bin(harness, defines)
        runs = [[root] + list(v) for v in vectors] + [[root, '--seed', str(self.seed * 1000 + i)] for i in range(seeds)]

        def one(args):
            a = self.run_bin(nb, args)
            b = self.run_bin(rb, args)
            oa, ob = self.observable(a[1]), self.observable(b[1])
            if ignore_checks:
                oa = [l for l in oa if not any(x in l for x in ignore_checks)]
                ob = [l for l in ob if not any(x in l for x in ignore_checks)]
            crashed = b[0] not in (0, 1, 77)
            mcrashed = a[0] not in (0, 1, 77)
            # an uncaught exception is "pending" in the model and a CHECKFAIL in the real driver: compare check messages only loosely
            same = (oa == ob) and not crashed and not mcrashed
            return args, same, oa, ob, a[0], b[0], b[2][-400:], a[2][-400:]
        with ThreadPoolExecutor(16) as ex:
            res = list(ex.map(one, runs))
        n = 0
        for args, same, oa, ob, ra, rb_, eb, ea in res:
            if 'ASSUME-VIOLATED' in oa and 'ASSUME-VIOLATED' in ob:
                continue
            n += 1
            if rb_ not in (0, 1, 77, -999):
                # the real library crashed (signal / sanitizer report) on this input: that is a violation of "never crashes" shown
                # against the real code, whatever the model says; the input vector is the replay
                inputs = [int(x) for l in oa + ob if l.startswith('INPUTS') for x in l.split()[1:]][:64]
                key = (root, 'crash')
                if key not in self._crash_reported:
                    self._crash_reported.add(key)
                    msg = 'the real library returns normally (no crash / sanitizer report)'
                    rep = dict(how='real library crashed in a differential run (rc=%s): %s' % (rb_, eb.strip().split('\n')[-1][:200]), checkfails=[], stderr_tail=eb)
                    self.report_violation(harness, root, defines, msg, args[1:], rep)
                continue
            realfails = [l[len('CHECKFAIL: '):] for l in ob if l.startswith('CHECKFAIL: ')]
            if realfails and rb_ == 1:
                # a harness property fails on the REAL library for this concrete input: a violation shown against the real code
                # (found by the sampled differential run, not by the solver; reported all the same)
                for msg in realfails[:2]:
                    key = (root, msg)
                    if key not in self._crash_reported:
                        self._crash_reported.add(key)
                        rep = dict(how='check fails on the real library in a differential run', checkfails=realfails, stderr_tail=eb)
                        self.report_violation(harness, root, defines, msg, args[1:], rep)
            if not same:
                self.diff_disagreements.append(dict(root=root, args=args, model=oa[-6:], real=ob[-6:], model_rc=ra, real_rc=rb_, real_err=eb, model_err=ea))
        with self.lock:
            self.diff_runs += n
        return res

    # ------------------------------------------------------------------ verdict handling
    def replay(self, harness, root, inputs, defines=(), msg=None, stack_mb=None):
        rb = self.real_bin(harness, defines)
        rc, out, err = self.run_bin(rb, [root] + list(inputs), timeout=120, stack_mb=stack_mb)
        fails = [l[len('CHECKFAIL: '):] for l in out.split('\n') if l.startswith('CHECKFAIL: ')]
        crashed = rc not in (0, 1, 77)
        rep = dict(root=root, inputs=list(inputs), rc=rc, checkfails=fails, crashed=crashed, stderr_tail=err[-600:])
        if crashed:
            rep['reproduced'] = True
            rep['how'] = 'real library crashed (rc=%s): %s' % (rc, (re.findall(r'(ERROR: \w+Sanitizer[^\n]*|runtime error[^\n]*)', err) or ['signal'])[0])
        elif msg is not None and any(self.msg_match(msg, f) for f in fails):
            rep['reproduced'] = True
            rep['how'] = 'same check fails on the real library'
        elif msg is not None and msg.startswith('no uncaught exception') and any('uncaught exception' in f for f in fails):
            rep['reproduced'] = True
            rep['how'] = 'real library throws: ' + [f for f in fails if 'uncaught' in f][0]
        else:
            rep['reproduced'] = False
        with self.lock:
            self.replays.append(rep)
        return rep

    @staticmethod
    def msg_match(a, b):
        return a.strip() == b.strip()

    def findings_for(self, harness_root):
        return [f for f in self.kf.get('findings', []) if f['property'] == self.prop and f.get('root') == harness_root]

    def exclusion_defines(self, root):
        return [f['exclude_define'] for f in self.findings_for(root) if f.get('exclude_define')]

    def handle(self, res, harness, defines=(), stack_mb=None, crash_ok_msgs=(), best_effort=False):
        """process one solver result: SUCCESS -> ok; FAILURE -> replay, classify; else problem.
        best_effort: a query known to be at the edge of feasibility; no verdict is recorded as inconclusive (never as success)
        without failing the whole check"""
        lab = res['label']
        if res['status'] == 'SUCCESS':
            return True
        if best_effort and (res['status'] == 'TIMEOUT' or (res['status'] == 'ERROR' and 'emory' in res.get('detail', ''))):
            res['kind'] = 'best-effort'
            self.notes.append('best-effort obligation without verdict (outside the claim): ' + lab)
            return False
        if res['status'] in ('TIMEOUT', 'ERROR'):
            self.problems.append('%s: solver %s %s' % (lab, res['status'], res.get('detail', '')[:800]))
            return False
        ok = True
        for f in res['failed']:
            msg = f['msg']
            if msg.startswith('unwinding assertion') or 'vstd bound exceeded' in msg or 'truncated string' in msg:
                # a bound was too small for this input; may itself be the finding (unbounded recursion) -> caller decides via crash_ok_msgs
                if not any(x in msg for x in crash_ok_msgs):
                    self.problems.append('%s: bound too small: %s (inputs %s)' % (lab, msg, f['inputs']))
                    ok = False
                    continue
            if f['inputs'] is None:
                self.problems.append('%s: failure without trace: %s' % (lab, msg))
                ok = False
                continue
            rep = self.replay(harness, res['root'], f['inputs'], defines, msg, stack_mb)
            if not rep['reproduced']:
                self.problems.append('%s: model disagreement: "%s" fails in the model for inputs %s but not on the real library (real: rc=%s %s)'
                                     % (lab, msg, f['inputs'], rep['rc'], rep['checkfails']))
                ok = False
                continue
            # listed findings are excluded from the queries by harness defines (and replayed separately by known_finding_lines):
            # whatever still fails here is, by construction, not a listed finding
            self.report_violation(harness, res['root'], defines, msg, f['inputs'], rep)
            ok = False
        return ok

    def match_known(self, root, msg, inputs):
        for f in self.findings_for(root):
            if f.get('check') and f['check'] != msg:
                continue
            pred = f.get('inputs_match')
            if pred is None or all(inputs[int(k)] in v for k, v in pred.items() if int(k) < len(inputs)):
                return f
        return None

    def report_violation(self, harness, root, defines, msg, inputs, rep):
        rdir = os.environ.get('VERIF_REPLAY_DIR', os.path.join(VERIF, 'replays'))
        os.makedirs(rdir, exist_ok=True)
        key = hashlib.sha1(repr((root, msg, inputs, list(defines))).encode()).hexdigest()[:10]
        path = os.path.join(rdir, '%s-%s.json' % (self.prop, key))
        json.dump(dict(property=self.prop, harness=harness, root=root, defines=list(defines), inputs=inputs, check=msg, how=rep.get('how'),
                       real_output=rep.get('checkfails'), stderr_tail=rep.get('stderr_tail')), open(path, 'w'), indent=1)
        with self.lock:
            self.violations.append(dict(root=root, msg=msg, inputs=inputs, replay=path, how=rep.get('how')))
        print('VIOLATION property=%s replay=%s' % (self.prop, path), flush=True)
        self.log('  violated: "%s" in %s with inputs %s (%s)' % (msg, root, inputs, rep.get('how')))

    def witness(self, model, root, **kw):
        """vacuity guard: the same harness with -DWITNESS ends in assert(0), which must FAIL (end reachable, assumptions satisfiable)"""
        kw.setdefault('trace', False)
        r = self.cbmc(model, root, kind='witness', **kw)
        good = r['status'] == 'FAILURE' and any('witness' in f['msg'] for f in r['failed']) and \
            not any(f['msg'].startswith('unwinding assertion') for f in r['failed'])
        r['witness_ok'] = good
        if not good:
            self.problems.append('%s: vacuity witness not reached (%s %s)' % (r['label'], r['status'], [f['msg'] for f in r['failed']][:4]))
        return good

    def kf_listed(self, fid):
        return any(f['id'] == fid for f in self.kf.get('findings', []) if f['property'] == self.prop)

    def known_finding_lines(self):
        """replay every listed finding of this property on the real library; print KNOWN-FINDING for those that still reproduce"""
        for f in [x for x in self.kf.get('findings', []) if x['property'] == self.prop]:
            rep = self.replay(f['harness'], f['root'], f['inputs'], f.get('defines', ()), f.get('check'), f.get('stack_mb'))
            if rep['reproduced']:
                print('KNOWN-FINDING: property=%s %s' % (self.prop, f['what']), flush=True)
                f['_reproduced'] = True
            else:
                self.notes.append('listed finding %s no longer reproduces on this tree' % f['id'])
                self.log('note: listed finding %s does not reproduce on this tree (rc=%s %s)' % (f['id'], rep['rc'], rep['checkfails']))
                f['_reproduced'] = False

    # ------------------------------------------------------------------ evidence
    def finish(self, level_text='', rule='', trusted=()):
        wall = time.time() - self.t0
        for d in self.diff_disagreements:
            self.problems.append('model/real differential disagreement: %s' % json.dumps(d)[:900])
        obl = [o for o in self.obligations]
        discharged = [o for o in obl if o['status'] == 'SUCCESS']
        samples = self.samples[:]
        for o in obl[:6]:
            samples.append(dict(query='cbmc --function %s' % o['root'], model=o['model'], label=o['label'], status=o['status'], wall_s=o['wall'],
                                sat_vars=o.get('sat_vars'), sat_clauses=o.get('sat_clauses'), unwind=o.get('unwind'), unwindset=o.get('unwindset'),
                                symbolic=o.get('symbolic')))
        for r in self.replays[:4]:
            samples.append(dict(replay=r['root'], inputs=r['inputs'], reproduced=r['reproduced'], how=r.get('how')))
        cov = dict(
            evaluations=len(obl) + len(self.witnesses) + self.diff_runs + len(self.replays),
            distinct_nontrivial=len({o['label'] for o in obl if o.get('symbolic')}),
            rule=rule or 'one obligation = one solver query (harness x shape x bound), universally quantified over its symbolic data; '
                         'non-trivial = the query has at least one solver variable and its vacuity witness was reached',
            samples=samples,
            obligations=len(obl), discharged=len(discharged),
            inconclusive=[o['label'] for o in obl if o['status'] in ('TIMEOUT', 'ERROR')],
            failed=[dict(label=o['label'], msgs=[f['msg'] for f in o['failed']], inputs=[f['inputs'] for f in o['failed']][:3]) for o in obl if o['status'] == 'FAILURE'],
            witnesses=dict(total=len(self.witnesses), reached=len([w for w in self.witnesses if w.get('witness_ok')])),
            traces_validated_against_impl=self.diff_runs + len([r for r in self.replays if r['reproduced']]),
            differential=dict(runs=self.diff_runs, disagreements=len(self.diff_disagreements)),
            replays=self.replays[:20],
            known_findings=[dict(id=k['id'], what=k['what'], inputs=i) for k, i in self.known_hits][:20] +
                           [dict(id=f['id'], what=f['what'], reproduced=f.get('_reproduced')) for f in self.kf.get('findings', []) if f['property'] == self.prop and '_reproduced' in f],
            functions_encoded=sorted(self.encoded)[:400], functions_encoded_count=len(self.encoded),
            stubs=sorted(self.stubs),
            solver=dict(engine='cbmc 6.11.0 (MiniSat/CaDiCaL SAT back end)', queries=len(obl) + len(self.witnesses), wall_s=round(self.solver_wall, 1), peak_rss_kb=self.peak_rss),
            per_query=[dict(label=o['label'], status=o['status'], wall_s=o['wall'], rss_kb=o['rss_kb'], unwind=o.get('unwind'), unwindset=o.get('unwindset'), backend=o.get('backend'), portfolio=o.get('portfolio'),
                            vars=o.get('sat_vars'), clauses=o.get('sat_clauses'), props=o.get('n_props')) for o in obl],
            checker_cmd='./check %s %s' % (self.prop, self.tier),
            trusted_base=list(trusted) or ['clang-14 front end', 'fw/ir2c.py (IR->C)', 'fw/vstd (bounded std model)', 'cbmc 6.11.0'],
            notes=self.notes, problems=self.problems[:20],
            exhaustive=False,
        )
        cov.update(self.extra_cov)
        ev = dict(property_id=self.prop, tier=self.tier, seed=self.seed, level='model_checking', coverage=cov, assumptions=self.assumptions,
                  wall_s=round(wall, 1), violations=len(self.violations))
        evdir = os.environ.get('VERIF_EVIDENCE_DIR', os.path.join(VERIF, 'evidence'))
        os.makedirs(evdir, exist_ok=True)
        json.dump(ev, open(os.path.join(evdir, self.prop + '.json'), 'w'), indent=1)
        self.log('obligations %d discharged %d; witnesses %d/%d; differential runs %d (%d disagreements); replays %d; solver %.0fs; wall %.0fs'
                 % (len(obl), len(discharged), cov['witnesses']['reached'], cov['witnesses']['total'], self.diff_runs, len(self.diff_disagreements),
                    len(self.replays), self.solver_wall, wall))
        if self.violations:
            return 1
        if self.problems:
            for p in self.problems[:20]:
                self.log('PROBLEM:', p)
            return 2
        return 0


def std_rules(string=None, vector=None, table=33, setchar=12, extra=()):
    """unwindset rules (regex on CBMC loop names = C function names) for the vstd containers"""
    r = list(extra)
    r.append((r'St3setIcSt4lessIcEE', setchar))
    r.append((r'__vstd_fmt_u?int', 22))
    r.append((r'__vstd_stoi|__vstd_stod|__vrt_stod_classify', 24))
    r.append((r'^log10\.|^pow\.', 27))
    if table:
        # the constant tables are keyed by strings or enumerations; other maps are small (VSTD_MAP_CAP)
        r.append((r'^_ZNK?St3mapI(St6string|N9libcellml)', table))
    r.append((r'^_ZNK?St3mapI', 10))
    r.append((r'^_ZNK?St3setI', 10))
    if string:
        r.append((r'^_ZNK?St6string', string))
        r.append((r'^_ZStplRKSt6string|^_ZSteqRKSt6string|^_ZStltRKSt6string', string))
    if vector:
        r.append((r'^_ZNK?St6vectorI', vector))
    return r


def pmap(fn, items, workers=8):
    with ThreadPoolExecutor(workers) as ex:
        return list(ex.map(fn, items))
