// vstd: a small, bounded model of the parts of the C++ standard library that
// libcellml's sources use.  Value semantics, inline fixed-capacity storage, no
// exceptions (a "throw" records a pending exception; see __vstd_throw).
#pragma once
#include <ctype.h>
#include <float.h>
#include <limits.h>
#include <math.h>
#include <stddef.h>
#include <stdint.h>
#include <stdlib.h>
#include <string.h>

#define VSTD_INLINE __attribute__((always_inline)) inline
#ifndef VSTD_STR_CAP
#    define VSTD_STR_CAP 23
#endif
#ifndef VSTD_VEC_CAP
#    define VSTD_VEC_CAP 6
#endif
#ifndef VSTD_MAP_CAP
#    define VSTD_MAP_CAP 8
#endif

extern "C" {
void __vstd_fail(const char *msg); // capacity exceeded / UB in the model: harness bound violated
void __vstd_throw(int kind); // record a thrown exception
int __vstd_catch(int kind); // consume a pending exception of that kind (1 if there was one)
extern int __vstd_trunc_used; // a truncated string took part in a comparison
void *__vstd_alloc(size_t n);
void __vstd_free(void *p);
}

enum
{
    VSTD_EXC_NONE = 0,
    VSTD_EXC_OUT_OF_RANGE = 1,
    VSTD_EXC_INVALID_ARGUMENT = 2,
    VSTD_EXC_BAD_ANY_CAST = 3,
    VSTD_EXC_BAD_WEAK_PTR = 4,
    VSTD_EXC_LENGTH = 5
};

inline void *operator new(size_t, void *p) noexcept
{
    return p;
}
inline void *operator new(size_t n)
{
    return __vstd_alloc(n);
}
inline void operator delete(void *p) noexcept
{
    __vstd_free(p);
}
inline void operator delete(void *p, size_t) noexcept
{
    __vstd_free(p);
}

namespace std {

using ::ptrdiff_t;
using ::size_t;
typedef decltype(nullptr) nullptr_t;

// ---- type traits / utility --------------------------------------------------
template<class T> struct remove_reference { typedef T type; };
template<class T> struct remove_reference<T &> { typedef T type; };
template<class T> struct remove_reference<T &&> { typedef T type; };
template<class T> struct remove_const { typedef T type; };
template<class T> struct remove_const<const T> { typedef T type; };
template<class T> struct remove_cv { typedef typename remove_const<T>::type type; };
template<class T> struct decay { typedef typename remove_const<typename remove_reference<T>::type>::type type; };
template<bool B, class T = void> struct enable_if {};
template<class T> struct enable_if<true, T> { typedef T type; };
template<class A, class B> struct is_same { static const bool value = false; };
template<class A> struct is_same<A, A> { static const bool value = true; };
template<class F, class T> struct is_convertible { static const bool value = __is_convertible_to(F, T); };

template<class T> VSTD_INLINE constexpr typename remove_reference<T>::type &&move(T &&t) noexcept
{
    return static_cast<typename remove_reference<T>::type &&>(t);
}
template<class T> VSTD_INLINE constexpr T &&forward(typename remove_reference<T>::type &t) noexcept
{
    return static_cast<T &&>(t);
}
template<class T> VSTD_INLINE constexpr T &&forward(typename remove_reference<T>::type &&t) noexcept
{
    return static_cast<T &&>(t);
}
template<class T> void swap(T &a, T &b)
{
    T t(move(a));
    a = move(b);
    b = move(t);
}

template<class E> class initializer_list
{
    const E *mB;
    size_t mN;
    constexpr initializer_list(const E *b, size_t n)
        : mB(b)
        , mN(n)
    {
    }

public:
    typedef E value_type;
    typedef const E *iterator;
    typedef const E *const_iterator;
    constexpr initializer_list() noexcept
        : mB(nullptr)
        , mN(0)
    {
    }
    VSTD_INLINE constexpr size_t size() const noexcept { return mN; }
    VSTD_INLINE constexpr const E *begin() const noexcept { return mB; }
    VSTD_INLINE constexpr const E *end() const noexcept { return mB + mN; }
};

template<class A, class B> struct pair
{
    typedef A first_type;
    typedef B second_type;
    A first;
    B second;
    pair()
        : first()
        , second()
    {
    }
    pair(const A &a, const B &b)
        : first(a)
        , second(b)
    {
    }
    template<class U, class V, class = typename enable_if<is_convertible<U, A>::value && is_convertible<V, B>::value>::type>
    pair(U &&a, V &&b)
        : first(forward<U>(a))
        , second(forward<V>(b))
    {
    }
    template<class U, class V, class = typename enable_if<is_convertible<const U &, A>::value && is_convertible<const V &, B>::value>::type>
    pair(const pair<U, V> &o)
        : first(o.first)
        , second(o.second)
    {
    }
};
template<class A, class B> pair<typename decay<A>::type, typename decay<B>::type> make_pair(A &&a, B &&b)
{
    return pair<typename decay<A>::type, typename decay<B>::type>(forward<A>(a), forward<B>(b));
}
template<class A, class B> bool operator==(const pair<A, B> &x, const pair<A, B> &y)
{
    return x.first == y.first && x.second == y.second;
}
template<class A, class B> bool operator<(const pair<A, B> &x, const pair<A, B> &y)
{
    return x.first < y.first || (!(y.first < x.first) && x.second < y.second);
}

template<class T> struct less
{
    VSTD_INLINE bool operator()(const T &a, const T &b) const { return a < b; }
};
template<class T> struct hash;

template<class T> struct numeric_limits;
template<> struct numeric_limits<double>
{
    static constexpr int digits10 = 15;
    VSTD_INLINE static constexpr double epsilon() { return DBL_EPSILON; }
    VSTD_INLINE static constexpr double max() { return DBL_MAX; }
    VSTD_INLINE static constexpr double min() { return DBL_MIN; }
    VSTD_INLINE static constexpr double infinity() { return __builtin_huge_val(); }
    VSTD_INLINE static constexpr double quiet_NaN() { return __builtin_nan(""); }
};
template<> struct numeric_limits<unsigned long>
{
    VSTD_INLINE static constexpr unsigned long max() { return ULONG_MAX; }
    VSTD_INLINE static constexpr unsigned long min() { return 0; }
};
template<> struct numeric_limits<int>
{
    VSTD_INLINE static constexpr int max() { return INT_MAX; }
    VSTD_INLINE static constexpr int min() { return INT_MIN; }
};

using ::fabs;
using ::strtol;
using ::strtoul;
using ::strtoll;
using ::strtoull;
using ::strtod;
using ::atoi;
using ::atol;
using ::abs;
using ::labs;
using ::strlen;
using ::strcmp;
using ::memcpy;
using ::memset;
using ::isdigit;
using ::isalpha;
using ::isalnum;
using ::tolower;
using ::toupper;
using ::floor;
using ::ceil;
using ::sqrt;
using ::isspace;
using ::log10;
using ::pow;
inline bool isnan(double x)
{
    return x != x;
}
inline bool isinf(double x)
{
    return x == __builtin_huge_val() || x == -__builtin_huge_val();
}

// ---- exceptions (types only; see __vstd_throw) -----------------------------------
struct exception {};
struct logic_error: exception {};
struct runtime_error: exception {};
struct out_of_range: logic_error {};
struct invalid_argument: logic_error {};
struct length_error: logic_error {};
struct bad_cast: exception {};
struct bad_any_cast: bad_cast {};
struct bad_weak_ptr: exception {};
// which pending kinds a handler type catches (a handler for a base class catches the derived kinds too)
template<class T> struct __exc_mask;
template<> struct __exc_mask<out_of_range> { static const int value = 1 << VSTD_EXC_OUT_OF_RANGE; };
template<> struct __exc_mask<invalid_argument> { static const int value = 1 << VSTD_EXC_INVALID_ARGUMENT; };
template<> struct __exc_mask<length_error> { static const int value = 1 << VSTD_EXC_LENGTH; };
template<> struct __exc_mask<bad_any_cast> { static const int value = 1 << VSTD_EXC_BAD_ANY_CAST; };
template<> struct __exc_mask<bad_cast> { static const int value = 1 << VSTD_EXC_BAD_ANY_CAST; };
template<> struct __exc_mask<bad_weak_ptr> { static const int value = 1 << VSTD_EXC_BAD_WEAK_PTR; };
template<> struct __exc_mask<logic_error> { static const int value = (1 << VSTD_EXC_OUT_OF_RANGE) | (1 << VSTD_EXC_INVALID_ARGUMENT) | (1 << VSTD_EXC_LENGTH); };
template<> struct __exc_mask<runtime_error> { static const int value = 0; };
template<> struct __exc_mask<exception> { static const int value = 0x7ffffffe; };
template<class T> struct __exc_kind;
template<> struct __exc_kind<bad_any_cast> { static const int value = VSTD_EXC_BAD_ANY_CAST; };
template<class T> inline bool __vstd_catch_t()
{
    const int mask = __exc_mask<typename decay<T>::type>::value;
    for (int k = 1; k <= VSTD_EXC_LENGTH; ++k) {
        if (((mask >> k) & 1) != 0 && __vstd_catch(k) != 0) {
            return true;
        }
    }
    return false;
}

// ---- string -----------------------------------------------------------------
class string
{
public:
    static const size_t npos = (size_t)-1;
    typedef char *iterator;
    typedef const char *const_iterator;
    typedef char value_type;
    typedef size_t size_type;

    string() noexcept
        : mLen(0)
        , mTrunc(false)
    {
        mBuf[0] = 0;
    }
    string(const char *s)
        : mLen(0)
        , mTrunc(false)
    {
        mBuf[0] = 0;
        append(s);
    }
    string(const char *s, size_t n)
        : mLen(0)
        , mTrunc(false)
    {
        mBuf[0] = 0;
        for (size_t i = 0; i < n; ++i) {
            push_back(s[i]);
        }
    }
    string(size_t n, char c)
        : mLen(0)
        , mTrunc(false)
    {
        mBuf[0] = 0;
        for (size_t i = 0; i < n; ++i) {
            push_back(c);
        }
    }
    string(const string &o) noexcept = default;
    string &operator=(const string &o) noexcept = default;
    string &operator=(const char *s)
    {
        clear();
        return append(s);
    }

    VSTD_INLINE size_t size() const noexcept { return mLen; }
    VSTD_INLINE size_t length() const noexcept { return mLen; }
    VSTD_INLINE bool empty() const noexcept { return mLen == 0; }
    void clear() noexcept
    {
        mLen = 0;
        mTrunc = false;
        mBuf[0] = 0;
    }
    VSTD_INLINE const char *c_str() const noexcept { return mBuf; }
    VSTD_INLINE const char *data() const noexcept { return mBuf; }
    VSTD_INLINE char *begin() noexcept { return mBuf; }
    VSTD_INLINE char *end() noexcept { return mBuf + mLen; }
    VSTD_INLINE const char *begin() const noexcept { return mBuf; }
    VSTD_INLINE const char *end() const noexcept { return mBuf + mLen; }
    VSTD_INLINE char &operator[](size_t i) { return mBuf[i]; }
    VSTD_INLINE const char &operator[](size_t i) const { return mBuf[i]; }
    char &at(size_t i)
    {
        if (i >= mLen) {
            __vstd_throw(VSTD_EXC_OUT_OF_RANGE);
            return mBuf[0];
        }
        return mBuf[i];
    }
    VSTD_INLINE char &back() { return mBuf[mLen - 1]; }
    VSTD_INLINE const char &back() const { return mBuf[mLen - 1]; }
    VSTD_INLINE char &front() { return mBuf[0]; }
    void push_back(char c) noexcept
    {
        if (mLen < VSTD_STR_CAP) {
            mBuf[mLen++] = c;
            mBuf[mLen] = 0;
        } else {
            mTrunc = true;
        }
    }
    void pop_back() noexcept
    {
        if (mLen > 0) {
            mBuf[--mLen] = 0;
        }
    }
    string &append(const char *s) noexcept
    {
        for (size_t i = 0; s[i] != 0; ++i) {
            push_back(s[i]);
        }
        return *this;
    }
    string &append(const string &o) noexcept
    {
        for (size_t i = 0; i < o.mLen; ++i) {
            push_back(o.mBuf[i]);
        }
        if (o.mTrunc) {
            mTrunc = true;
        }
        return *this;
    }
    VSTD_INLINE string &operator+=(const string &o) noexcept { return append(o); }
    VSTD_INLINE string &operator+=(const char *s) noexcept { return append(s); }
    string &operator+=(char c) noexcept
    {
        push_back(c);
        return *this;
    }
    string substr(size_t pos = 0, size_t n = npos) const
    {
        string r;
        if (pos > mLen) {
            __vstd_throw(VSTD_EXC_OUT_OF_RANGE);
            return r;
        }
        for (size_t i = pos; i < mLen && (i - pos) < n; ++i) {
            r.push_back(mBuf[i]);
        }
        r.mTrunc = mTrunc;
        return r;
    }
    string &erase(size_t pos = 0, size_t n = npos)
    {
        if (pos > mLen) {
            __vstd_throw(VSTD_EXC_OUT_OF_RANGE);
            return *this;
        }
        size_t cnt = (n < mLen - pos) ? n : (mLen - pos);
        for (size_t i = pos; i + cnt < mLen; ++i) {
            mBuf[i] = mBuf[i + cnt];
        }
        mLen -= cnt;
        mBuf[mLen] = 0;
        return *this;
    }
    char *erase(const char *first, const char *last)
    {
        size_t pos = (size_t)(first - mBuf);
        erase(pos, (size_t)(last - first));
        return mBuf + pos;
    }
    string &insert(size_t pos, const string &s)
    {
        string tail = substr(pos);
        erase(pos);
        append(s);
        append(tail);
        return *this;
    }
    string &replace(size_t pos, size_t n, const string &s)
    {
        if (pos > mLen) {
            __vstd_throw(VSTD_EXC_OUT_OF_RANGE);
            return *this;
        }
        size_t cnt = (n < mLen - pos) ? n : (mLen - pos);
        string tail = substr(pos + cnt);
        erase(pos);
        append(s);
        append(tail);
        return *this;
    }
    size_t find(const string &s, size_t pos = 0) const noexcept
    {
        note(s);
        if (s.mLen > mLen) {
            return npos;
        }
        for (size_t i = pos; i + s.mLen <= mLen; ++i) {
            size_t j = 0;
            while (j < s.mLen && mBuf[i + j] == s.mBuf[j]) {
                ++j;
            }
            if (j == s.mLen) {
                return i;
            }
        }
        return npos;
    }
    VSTD_INLINE size_t find(const char *s, size_t pos = 0) const noexcept { return find(string(s), pos); }
    size_t find(char c, size_t pos = 0) const noexcept
    {
        for (size_t i = pos; i < mLen; ++i) {
            if (mBuf[i] == c) {
                return i;
            }
        }
        return npos;
    }
    size_t find_last_of(char c) const noexcept
    {
        for (size_t i = mLen; i-- > 0;) {
            if (mBuf[i] == c) {
                return i;
            }
        }
        return npos;
    }
    size_t find_first_not_of(const char *set, size_t pos = 0) const noexcept
    {
        for (size_t i = pos; i < mLen; ++i) {
            bool in = false;
            for (size_t k = 0; set[k] != 0; ++k) {
                if (set[k] == mBuf[i]) {
                    in = true;
                }
            }
            if (!in) {
                return i;
            }
        }
        return npos;
    }
    size_t find_last_not_of(char c) const noexcept
    {
        for (size_t i = mLen; i-- > 0;) {
            if (mBuf[i] != c) {
                return i;
            }
        }
        return npos;
    }
    int compare(const string &o) const noexcept
    {
        note(o);
        size_t n = mLen < o.mLen ? mLen : o.mLen;
        for (size_t i = 0; i < n; ++i) {
            unsigned char a = (unsigned char)mBuf[i];
            unsigned char b = (unsigned char)o.mBuf[i];
            if (a != b) {
                return a < b ? -1 : 1;
            }
        }
        return mLen == o.mLen ? 0 : (mLen < o.mLen ? -1 : 1);
    }
    VSTD_INLINE int compare(size_t pos, size_t n, const char *s) const { return substr(pos, n).compare(string(s)); }
    VSTD_INLINE bool __truncated() const noexcept { return mTrunc; }
    struct reverse_iterator
    {
        char *mP;
        VSTD_INLINE char &operator*() const { return *(mP - 1); }
        reverse_iterator &operator++()
        {
            --mP;
            return *this;
        }
        VSTD_INLINE bool operator!=(const reverse_iterator &o) const { return mP != o.mP; }
        VSTD_INLINE bool operator==(const reverse_iterator &o) const { return mP == o.mP; }
        VSTD_INLINE char *base() const { return mP; }
    };
    reverse_iterator rbegin() noexcept
    {
        reverse_iterator r = {mBuf + mLen};
        return r;
    }
    reverse_iterator rend() noexcept
    {
        reverse_iterator r = {mBuf};
        return r;
    }

private:
    void note(const string &o) const noexcept
    {
        if (mTrunc || o.mTrunc) {
            __vstd_trunc_used = 1;
        }
    }
    size_t mLen;
    bool mTrunc;
    char mBuf[VSTD_STR_CAP + 1];
};
inline bool operator==(const string &a, const string &b) noexcept
{
    return a.compare(b) == 0;
}
inline bool operator==(const string &a, const char *b) noexcept
{
    return a.compare(string(b)) == 0;
}
inline bool operator==(const char *a, const string &b) noexcept
{
    return b.compare(string(a)) == 0;
}
inline bool operator!=(const string &a, const string &b) noexcept
{
    return a.compare(b) != 0;
}
inline bool operator!=(const string &a, const char *b) noexcept
{
    return a.compare(string(b)) != 0;
}
inline bool operator<(const string &a, const string &b) noexcept
{
    return a.compare(b) < 0;
}
inline string operator+(const string &a, const string &b)
{
    string r(a);
    r.append(b);
    return r;
}
inline string operator+(const string &a, const char *b)
{
    string r(a);
    r.append(b);
    return r;
}
inline string operator+(const char *a, const string &b)
{
    string r(a);
    r.append(b);
    return r;
}
inline string operator+(const string &a, char b)
{
    string r(a);
    r.push_back(b);
    return r;
}

// Numeric conversions: the contract of std::stod / std::stoi, not their code.
} // namespace std
extern "C" {
double __vstd_stod(const char *s, size_t n); // sets pending exception as std::stod would
int __vstd_stoi(const char *s, size_t n);
}
namespace std {
inline double stod(const string &s)
{
    return __vstd_stod(s.c_str(), s.size());
}
inline int stoi(const string &s)
{
    return __vstd_stoi(s.c_str(), s.size());
}
string __vstd_to_string(double v, int precision); // %g-style, harness supplied when needed
string to_string(double v);
string to_string(size_t v);

// ---- iterators / algorithms ------------------------------------------------------
template<class C> auto begin(C &c) -> decltype(c.begin())
{
    return c.begin();
}
template<class C> auto end(C &c) -> decltype(c.end())
{
    return c.end();
}
template<class C> class back_insert_iterator
{
    C *mC;

public:
    explicit back_insert_iterator(C &c)
        : mC(&c)
    {
    }
    template<class V> back_insert_iterator &operator=(const V &v)
    {
        mC->push_back(v);
        return *this;
    }
    VSTD_INLINE back_insert_iterator &operator*() { return *this; }
    VSTD_INLINE back_insert_iterator &operator++() { return *this; }
    VSTD_INLINE back_insert_iterator operator++(int) { return *this; }
};
template<class C> back_insert_iterator<C> back_inserter(C &c)
{
    return back_insert_iterator<C>(c);
}
template<class It, class P> It find_if(It f, It l, P p)
{
    for (; f != l; ++f) {
        if (p(*f)) {
            return f;
        }
    }
    return l;
}
template<class It, class V> It find(It f, It l, const V &v)
{
    for (; f != l; ++f) {
        if (*f == v) {
            return f;
        }
    }
    return l;
}
template<class It, class P> bool all_of(It f, It l, P p)
{
    for (; f != l; ++f) {
        if (!p(*f)) {
            return false;
        }
    }
    return true;
}
template<class It, class P> bool any_of(It f, It l, P p)
{
    for (; f != l; ++f) {
        if (p(*f)) {
            return true;
        }
    }
    return false;
}
template<class It, class O> O copy(It f, It l, O o)
{
    for (; f != l; ++f) {
        *o = *f;
        ++o;
    }
    return o;
}
template<class It, class V> void iota(It f, It l, V v)
{
    for (; f != l; ++f) {
        *f = v;
        ++v;
    }
}
template<class It> void reverse(It f, It l)
{
    while (f != l && f != --l) {
        swap(*f, *l);
        ++f;
    }
}
template<class It, class P> It remove_if(It f, It l, P p)
{
    It out = f;
    for (; f != l; ++f) {
        if (!p(*f)) {
            if (out != f) {
                *out = move(*f);
            }
            ++out;
        }
    }
    return out;
}
template<class It, class V> void replace(It f, It l, const V &a, const V &b)
{
    for (; f != l; ++f) {
        if (*f == a) {
            *f = b;
        }
    }
}
template<class T> const T &min(const T &a, const T &b)
{
    return b < a ? b : a;
}
template<class T> const T &max(const T &a, const T &b)
{
    return a < b ? b : a;
}

// ---- vector --------------------------------------------------------------------
template<class T> struct __vec_cap { static const size_t value = VSTD_VEC_CAP; };

template<class T> class vector
{
    static const size_t CAP = __vec_cap<T>::value;

public:
    typedef T value_type;
    typedef T *iterator;
    typedef const T *const_iterator;
    typedef size_t size_type;
    typedef T &reference;
    typedef const T &const_reference;

    vector() noexcept
        : mN(0)
    {
    }
    explicit vector(size_t n)
        : mN(0)
    {
        for (size_t i = 0; i < n; ++i) {
            emplace_back();
        }
    }
    vector(const vector &o)
        : mN(0)
    {
        for (size_t i = 0; i < o.mN; ++i) {
            push_back(o.ptr()[i]);
        }
    }
    vector(vector &&o)
        : mN(0)
    {
        for (size_t i = 0; i < o.mN; ++i) {
            emplace_back(move(o.ptr()[i]));
        }
        o.clear();
    }
    vector(initializer_list<T> il)
        : mN(0)
    {
        for (const T *p = il.begin(); p != il.end(); ++p) {
            push_back(*p);
        }
    }
    template<class It, class = typename enable_if<!is_convertible<It, size_t>::value>::type> vector(It f, It l)
        : mN(0)
    {
        for (; f != l; ++f) {
            push_back(*f);
        }
    }
    ~vector() { clear(); }
    vector &operator=(const vector &o)
    {
        if (this != &o) {
            clear();
            for (size_t i = 0; i < o.mN; ++i) {
                push_back(o.ptr()[i]);
            }
        }
        return *this;
    }
    vector &operator=(vector &&o)
    {
        if (this != &o) {
            clear();
            for (size_t i = 0; i < o.mN; ++i) {
                emplace_back(move(o.ptr()[i]));
            }
            o.clear();
        }
        return *this;
    }
    VSTD_INLINE size_t size() const noexcept { return mN; }
    VSTD_INLINE bool empty() const noexcept { return mN == 0; }
    VSTD_INLINE T *begin() noexcept { return ptr(); }
    VSTD_INLINE T *end() noexcept { return ptr() + mN; }
    VSTD_INLINE const T *begin() const noexcept { return ptr(); }
    VSTD_INLINE const T *end() const noexcept { return ptr() + mN; }
    VSTD_INLINE const T *cbegin() const noexcept { return ptr(); }
    VSTD_INLINE const T *cend() const noexcept { return ptr() + mN; }
    VSTD_INLINE T &operator[](size_t i) { return ptr()[i]; }
    VSTD_INLINE const T &operator[](size_t i) const { return ptr()[i]; }
    T &at(size_t i)
    {
        if (i >= mN) {
            __vstd_throw(VSTD_EXC_OUT_OF_RANGE);
            return ptr()[0];
        }
        return ptr()[i];
    }
    const T &at(size_t i) const
    {
        if (i >= mN) {
            __vstd_throw(VSTD_EXC_OUT_OF_RANGE);
            return ptr()[0];
        }
        return ptr()[i];
    }
    VSTD_INLINE T &front() { return ptr()[0]; }
    VSTD_INLINE const T &front() const { return ptr()[0]; }
    VSTD_INLINE T &back() { return ptr()[mN - 1]; }
    VSTD_INLINE const T &back() const { return ptr()[mN - 1]; }
    VSTD_INLINE void reserve(size_t) {}
    template<class... A> T &emplace_back(A &&...a)
    {
        if (mN >= CAP) {
            __vstd_fail("vstd::vector capacity exceeded");
            return ptr()[0];
        }
        new (ptr() + mN) T(forward<A>(a)...);
        return ptr()[mN++];
    }
    VSTD_INLINE void push_back(const T &v) { emplace_back(v); }
    VSTD_INLINE void push_back(T &&v) { emplace_back(move(v)); }
    void pop_back()
    {
        if (mN > 0) {
            ptr()[--mN].~T();
        }
    }
    void clear() noexcept
    {
        while (mN > 0) {
            ptr()[--mN].~T();
        }
    }
    void resize(size_t n, const T &v = T())
    {
        while (mN > n) {
            pop_back();
        }
        while (mN < n) {
            push_back(v);
        }
    }
    T *erase(const T *pos)
    {
        size_t i = (size_t)(pos - ptr());
        for (size_t k = i; k + 1 < mN; ++k) {
            ptr()[k] = move(ptr()[k + 1]);
        }
        pop_back();
        return ptr() + i;
    }
    T *erase(const T *first, const T *last)
    {
        size_t i = (size_t)(first - ptr());
        size_t cnt = (size_t)(last - first);
        if (cnt != 0) {
            for (size_t k = i; k + cnt < mN; ++k) {
                ptr()[k] = move(ptr()[k + cnt]);
            }
            for (size_t k = 0; k < cnt; ++k) {
                pop_back();
            }
        }
        return ptr() + i;
    }
    T *insert(const T *pos, const T &v)
    {
        size_t i = (size_t)(pos - ptr());
        T copy(v);
        emplace_back();
        for (size_t k = mN - 1; k > i; --k) {
            ptr()[k] = move(ptr()[k - 1]);
        }
        ptr()[i] = move(copy);
        return ptr() + i;
    }
    template<class It> T *insert(const T *pos, It f, It l)
    {
        size_t i = (size_t)(pos - ptr());
        size_t k = i;
        for (; f != l; ++f, ++k) {
            insert(ptr() + k, *f);
        }
        return ptr() + i;
    }

private:
    VSTD_INLINE T *ptr() noexcept { return mU.a; }
    VSTD_INLINE const T *ptr() const noexcept { return mU.a; }
    size_t mN;
    union U
    {
        T a[CAP];
        U() {}
        ~U() {}
    } mU;
};
template<class T> bool operator==(const vector<T> &a, const vector<T> &b)
{
    if (a.size() != b.size()) {
        return false;
    }
    for (size_t i = 0; i < a.size(); ++i) {
        if (!(a[i] == b[i])) {
            return false;
        }
    }
    return true;
}
template<class T> bool operator<(const vector<T> &a, const vector<T> &b)
{
    size_t n = a.size() < b.size() ? a.size() : b.size();
    for (size_t i = 0; i < n; ++i) {
        if (a[i] < b[i]) {
            return true;
        }
        if (b[i] < a[i]) {
            return false;
        }
    }
    return a.size() < b.size();
}

// ---- smart pointers -------------------------------------------------------------
struct __ctrl
{
    long strong;
    long weak; // weak refs + (strong > 0 ? 1 : 0)
    void *obj;
    void (*del)(void *);
};
template<class T> void __del_fn(void *p)
{
    delete static_cast<T *>(p);
}
inline void __ctrl_release_weak(__ctrl *c) noexcept
{
#ifdef VSTD_NO_DESTROY
    if (c != nullptr) {
        --c->weak;
    }
#else
    if (c != nullptr && --c->weak == 0) {
        __vstd_free(c);
    }
#endif
}
inline void __ctrl_release_strong(__ctrl *c) noexcept
{
    if (c != nullptr && --c->strong == 0) {
#ifdef VSTD_NO_DESTROY
        // The object expires (weak_ptr::lock() fails from now on) but its destructor is not run.
        c->obj = nullptr;
#else
        void *o = c->obj;
        c->obj = nullptr;
        c->del(o);
        __ctrl_release_weak(c);
#endif
    }
}

template<class T> class weak_ptr;
template<class T> class enable_shared_from_this;
template<class T> class shared_ptr;

template<class Y> void __esft_hook(const enable_shared_from_this<Y> *e, Y *p, __ctrl *c) noexcept;
inline void __esft_hook(const volatile void *, const volatile void *, __ctrl *) noexcept {}

template<class T> class shared_ptr
{
public:
    typedef T element_type;
    constexpr shared_ptr() noexcept
        : mP(nullptr)
        , mC(nullptr)
    {
    }
    constexpr shared_ptr(nullptr_t) noexcept
        : mP(nullptr)
        , mC(nullptr)
    {
    }
    template<class Y, class = typename enable_if<is_convertible<Y *, T *>::value>::type> explicit shared_ptr(Y *p)
        : mP(p)
        , mC(nullptr)
    {
        mC = static_cast<__ctrl *>(__vstd_alloc(sizeof(__ctrl)));
        mC->strong = 1;
        mC->weak = 1;
        mC->obj = const_cast<typename remove_const<Y>::type *>(p);
        mC->del = &__del_fn<typename remove_const<Y>::type>;
        __esft_hook(p, const_cast<typename remove_const<Y>::type *>(p), mC);
    }
    shared_ptr(const shared_ptr &o) noexcept
        : mP(o.mP)
        , mC(o.mC)
    {
        acquire();
    }
    template<class Y, class = typename enable_if<is_convertible<Y *, T *>::value>::type> shared_ptr(const shared_ptr<Y> &o) noexcept
        : mP(o.mP)
        , mC(o.mC)
    {
        acquire();
    }
    shared_ptr(shared_ptr &&o) noexcept
        : mP(o.mP)
        , mC(o.mC)
    {
        o.mP = nullptr;
        o.mC = nullptr;
    }
    template<class Y, class = typename enable_if<is_convertible<Y *, T *>::value>::type> shared_ptr(shared_ptr<Y> &&o) noexcept
        : mP(o.mP)
        , mC(o.mC)
    {
        o.mP = nullptr;
        o.mC = nullptr;
    }
    // aliasing constructor (used by the pointer casts)
    template<class Y> shared_ptr(const shared_ptr<Y> &o, T *p) noexcept
        : mP(p)
        , mC(o.mC)
    {
        acquire();
    }
    ~shared_ptr() { __ctrl_release_strong(mC); }
    shared_ptr &operator=(const shared_ptr &o) noexcept
    {
        shared_ptr t(o);
        swap(t);
        return *this;
    }
    template<class Y, class = typename enable_if<is_convertible<Y *, T *>::value>::type> shared_ptr &operator=(const shared_ptr<Y> &o) noexcept
    {
        shared_ptr t(o);
        swap(t);
        return *this;
    }
    shared_ptr &operator=(shared_ptr &&o) noexcept
    {
        shared_ptr t(move(o));
        swap(t);
        return *this;
    }
    void swap(shared_ptr &o) noexcept
    {
        T *p = mP;
        __ctrl *c = mC;
        mP = o.mP;
        mC = o.mC;
        o.mP = p;
        o.mC = c;
    }
    void reset() noexcept
    {
        shared_ptr t;
        swap(t);
    }
    VSTD_INLINE T *get() const noexcept { return mP; }
    VSTD_INLINE T &operator*() const noexcept { return *mP; }
    VSTD_INLINE T *operator->() const noexcept { return mP; }
    VSTD_INLINE explicit operator bool() const noexcept { return mP != nullptr; }
    VSTD_INLINE long use_count() const noexcept { return mC != nullptr ? mC->strong : 0; }

    void acquire() noexcept
    {
        if (mC != nullptr) {
            ++mC->strong;
        }
    }
    T *mP;
    __ctrl *mC;
    template<class Y> friend class shared_ptr;
    template<class Y> friend class weak_ptr;
    template<class Y> friend struct owner_less;
};
template<class A, class B> bool operator==(const shared_ptr<A> &a, const shared_ptr<B> &b) noexcept
{
    return a.get() == b.get();
}
template<class A, class B> bool operator!=(const shared_ptr<A> &a, const shared_ptr<B> &b) noexcept
{
    return a.get() != b.get();
}
template<class A> bool operator==(const shared_ptr<A> &a, nullptr_t) noexcept
{
    return a.get() == nullptr;
}
template<class A> bool operator==(nullptr_t, const shared_ptr<A> &a) noexcept
{
    return a.get() == nullptr;
}
template<class A> bool operator!=(const shared_ptr<A> &a, nullptr_t) noexcept
{
    return a.get() != nullptr;
}
template<class A> bool operator!=(nullptr_t, const shared_ptr<A> &a) noexcept
{
    return a.get() != nullptr;
}
template<class A, class B> bool operator<(const shared_ptr<A> &a, const shared_ptr<B> &b) noexcept
{
    return (uintptr_t)a.get() < (uintptr_t)b.get();
}
template<class T, class... A> shared_ptr<T> make_shared(A &&...a)
{
    return shared_ptr<T>(new T(forward<A>(a)...));
}
template<class T, class U> shared_ptr<T> dynamic_pointer_cast(const shared_ptr<U> &p) noexcept
{
    T *t = dynamic_cast<T *>(p.get());
    return t != nullptr ? shared_ptr<T>(p, t) : shared_ptr<T>();
}
template<class T, class U> shared_ptr<T> static_pointer_cast(const shared_ptr<U> &p) noexcept
{
    return shared_ptr<T>(p, static_cast<T *>(p.get()));
}
template<class T, class U> shared_ptr<T> const_pointer_cast(const shared_ptr<U> &p) noexcept
{
    return shared_ptr<T>(p, const_cast<T *>(p.get()));
}

template<class T> class weak_ptr
{
public:
    constexpr weak_ptr() noexcept
        : mP(nullptr)
        , mC(nullptr)
    {
    }
    weak_ptr(const weak_ptr &o) noexcept
        : mP(o.mP)
        , mC(o.mC)
    {
        acquire();
    }
    template<class Y, class = typename enable_if<is_convertible<Y *, T *>::value>::type> weak_ptr(const weak_ptr<Y> &o) noexcept
        : mP(o.mP)
        , mC(o.mC)
    {
        acquire();
    }
    template<class Y, class = typename enable_if<is_convertible<Y *, T *>::value>::type> weak_ptr(const shared_ptr<Y> &o) noexcept
        : mP(o.mP)
        , mC(o.mC)
    {
        acquire();
    }
    weak_ptr(weak_ptr &&o) noexcept
        : mP(o.mP)
        , mC(o.mC)
    {
        o.mP = nullptr;
        o.mC = nullptr;
    }
    ~weak_ptr() { __ctrl_release_weak(mC); }
    weak_ptr &operator=(const weak_ptr &o) noexcept
    {
        weak_ptr t(o);
        swap(t);
        return *this;
    }
    weak_ptr &operator=(weak_ptr &&o) noexcept
    {
        weak_ptr t(move(o));
        swap(t);
        return *this;
    }
    template<class Y, class = typename enable_if<is_convertible<Y *, T *>::value>::type> weak_ptr &operator=(const shared_ptr<Y> &o) noexcept
    {
        weak_ptr t(o);
        swap(t);
        return *this;
    }
    void swap(weak_ptr &o) noexcept
    {
        T *p = mP;
        __ctrl *c = mC;
        mP = o.mP;
        mC = o.mC;
        o.mP = p;
        o.mC = c;
    }
    void reset() noexcept
    {
        weak_ptr t;
        swap(t);
    }
    VSTD_INLINE bool expired() const noexcept { return mC == nullptr || mC->strong == 0; }
    template<class Y> bool owner_before(const weak_ptr<Y> &o) const noexcept { return (uintptr_t)mC < (uintptr_t)o.mC; }
    template<class Y> bool owner_before(const shared_ptr<Y> &o) const noexcept { return (uintptr_t)mC < (uintptr_t)o.mC; }
    shared_ptr<T> lock() const noexcept
    {
        shared_ptr<T> r;
        if (!expired()) {
            r.mP = mP;
            r.mC = mC;
            ++mC->strong;
        }
        return r;
    }

    void acquire() noexcept
    {
        if (mC != nullptr) {
            ++mC->weak;
        }
    }
    T *mP;
    __ctrl *mC;
    template<class Y> friend class weak_ptr;
    template<class Y> friend class shared_ptr;
    template<class Y> friend struct owner_less;
    template<class Y> friend class enable_shared_from_this;
};

template<class T> struct owner_less;
template<class T> struct owner_less<weak_ptr<T>>
{
    VSTD_INLINE bool operator()(const weak_ptr<T> &a, const weak_ptr<T> &b) const noexcept { return (uintptr_t)a.mC < (uintptr_t)b.mC; }
    VSTD_INLINE bool operator()(const shared_ptr<T> &a, const weak_ptr<T> &b) const noexcept { return (uintptr_t)a.mC < (uintptr_t)b.mC; }
    VSTD_INLINE bool operator()(const weak_ptr<T> &a, const shared_ptr<T> &b) const noexcept { return (uintptr_t)a.mC < (uintptr_t)b.mC; }
};

template<class T> class enable_shared_from_this
{
protected:
    VSTD_INLINE constexpr enable_shared_from_this() noexcept {}
    VSTD_INLINE enable_shared_from_this(const enable_shared_from_this &) noexcept {}
    VSTD_INLINE enable_shared_from_this &operator=(const enable_shared_from_this &) noexcept { return *this; }
    ~enable_shared_from_this() {}

public:
    shared_ptr<T> shared_from_this()
    {
        shared_ptr<T> r = mWeakThis.lock();
        if (r.get() == nullptr) {
            __vstd_throw(VSTD_EXC_BAD_WEAK_PTR);
        }
        return r;
    }
    shared_ptr<const T> shared_from_this() const
    {
        shared_ptr<const T> r = mWeakThis.lock();
        if (r.get() == nullptr) {
            __vstd_throw(VSTD_EXC_BAD_WEAK_PTR);
        }
        return r;
    }
    mutable weak_ptr<T> mWeakThis;
};
template<class Y> void __esft_hook(const enable_shared_from_this<Y> *e, Y *p, __ctrl *c) noexcept
{
    if (e != nullptr) {
        e->mWeakThis.mP = p;
        e->mWeakThis.mC = c;
        ++c->weak;
    }
}

// ---- map / set (sorted, inline storage) -------------------------------------------
#ifndef VSTD_TABLE_CAP
#    define VSTD_TABLE_CAP 32
#endif
// Maps keyed by a string or an enumeration are (also) used for libcellml's constant tables.
template<class K, class V> struct __map_cap { static const size_t value = (__is_enum(K) || is_same<K, string>::value) ? VSTD_TABLE_CAP : VSTD_MAP_CAP; };

// Containers keyed by object addresses (shared_ptr / weak_ptr with std::less or std::owner_less, raw pointers): the real
// iteration order depends on where the allocator placed the objects, which no caller can rely on.  The model keeps such
// containers in insertion order and looks keys up by (pointer) equality, so that positions stay concrete for the solver.
template<class K, class C> struct __by_address { static const bool value = false; };
template<class T> struct __by_address<shared_ptr<T>, less<shared_ptr<T>>> { static const bool value = true; };
template<class T> struct __by_address<T *, less<T *>> { static const bool value = true; };
template<class T> struct __by_address<weak_ptr<T>, owner_less<weak_ptr<T>>> { static const bool value = true; };
template<class T> struct __by_address<shared_ptr<T>, owner_less<shared_ptr<T>>> { static const bool value = true; };
template<class C> struct __addr_key
{
    template<class T> static const void *of(const shared_ptr<T> &p) { return p.get(); }
    template<class T> static const void *of(T *p) { return p; }
};
template<class T> struct __addr_key<owner_less<T>>
{
    template<class U> static const void *of(const shared_ptr<U> &p) { return p.mC; }
    template<class U> static const void *of(const weak_ptr<U> &p) { return p.mC; }
};

template<class K, class V, class C = less<K>> class map
{
    static const size_t CAP = __map_cap<K, V>::value;

public:
    typedef K key_type;
    typedef V mapped_type;
    typedef pair<const K, V> value_type;
    typedef value_type *iterator;
    typedef const value_type *const_iterator;

    map() noexcept
        : mN(0)
    {
    }
    map(const map &o)
        : mN(0)
    {
        for (size_t i = 0; i < o.mN; ++i) {
            new (ptr() + mN++) value_type(o.ptr()[i]);
        }
    }
    map(initializer_list<value_type> il)
        : mN(0)
    {
        for (const value_type *p = il.begin(); p != il.end(); ++p) {
            __insert(*p);
        }
    }
    ~map() { clear(); }
    map &operator=(const map &o)
    {
        if (this != &o) {
            clear();
            for (size_t i = 0; i < o.mN; ++i) {
                new (ptr() + mN++) value_type(o.ptr()[i]);
            }
        }
        return *this;
    }
    VSTD_INLINE size_t size() const noexcept { return mN; }
    VSTD_INLINE bool empty() const noexcept { return mN == 0; }
    VSTD_INLINE iterator begin() noexcept { return ptr(); }
    VSTD_INLINE iterator end() noexcept { return ptr() + mN; }
    VSTD_INLINE const_iterator begin() const noexcept { return ptr(); }
    VSTD_INLINE const_iterator end() const noexcept { return ptr() + mN; }
    void clear() noexcept
    {
        while (mN > 0) {
            ptr()[--mN].~value_type();
        }
    }
    template<class Q> bool hit(size_t i, const Q &k) const
    {
        if constexpr (__by_address<K, C>::value) {
            return i < mN;
        } else {
            return i < mN && !mCmp(k, ptr()[i].first);
        }
    }
    template<class Q> iterator find(const Q &k)
    {
        size_t i = lower(k);
        return hit(i, k) ? ptr() + i : end();
    }
    template<class Q> const_iterator find(const Q &k) const
    {
        size_t i = lower(k);
        return hit(i, k) ? ptr() + i : end();
    }
    template<class Q> VSTD_INLINE size_t count(const Q &k) const { return find(k) != end() ? 1 : 0; }
    V &operator[](const K &k)
    {
        size_t i = lower(k);
        if (hit(i, k)) {
            return ptr()[i].second;
        }
        return place(i, value_type(k, V()))->second;
    }
    template<class Q> V &at(const Q &k)
    {
        iterator it = find(k);
        if (it == end()) {
            __vstd_throw(VSTD_EXC_OUT_OF_RANGE);
            return ptr()[0].second;
        }
        return it->second;
    }
    template<class Q> const V &at(const Q &k) const
    {
        const_iterator it = find(k);
        if (it == end()) {
            __vstd_throw(VSTD_EXC_OUT_OF_RANGE);
            return ptr()[0].second;
        }
        return it->second;
    }
    pair<iterator, bool> __insert(const value_type &v)
    {
        size_t i = lower(v.first);
        if (hit(i, v.first)) {
            return pair<iterator, bool>(ptr() + i, false);
        }
        return pair<iterator, bool>(place(i, v), true);
    }
    pair<iterator, bool> insert(const value_type &v) { return __insert(v); }
    template<class P, class = typename enable_if<is_convertible<P, value_type>::value>::type> pair<iterator, bool> insert(P &&p)
    {
        value_type v(forward<P>(p));
        return __insert(v);
    }
    template<class It> void insert(It f, It l)
    {
        for (; f != l; ++f) {
            insert(*f);
        }
    }
    template<class A, class B> pair<iterator, bool> emplace(A &&a, B &&b)
    {
        value_type v(forward<A>(a), forward<B>(b));
        return __insert(v);
    }
    iterator erase(const_iterator pos)
    {
        size_t i = (size_t)(pos - ptr());
        for (size_t k = i; k + 1 < mN; ++k) {
            ptr()[k].~value_type();
            new (ptr() + k) value_type(ptr()[k + 1]);
        }
        ptr()[--mN].~value_type();
        return ptr() + i;
    }
    size_t erase(const K &k)
    {
        iterator it = find(k);
        if (it == end()) {
            return 0;
        }
        erase(it);
        return 1;
    }

private:
    template<class Q> size_t lower(const Q &k) const
    {
        size_t i = 0;
        if constexpr (__by_address<K, C>::value) {
            while (i < mN && __addr_key<C>::of(ptr()[i].first) != __addr_key<C>::of(k)) {
                ++i;
            }
        } else {
            while (i < mN && mCmp(ptr()[i].first, k)) {
                ++i;
            }
        }
        return i;
    }
    iterator place(size_t i, const value_type &v)
    {
        if (mN >= CAP) {
            __vstd_fail("vstd::map capacity exceeded");
            return ptr();
        }
        for (size_t k = mN; k > i; --k) {
            new (ptr() + k) value_type(ptr()[k - 1]);
            ptr()[k - 1].~value_type();
        }
        new (ptr() + i) value_type(v);
        ++mN;
        return ptr() + i;
    }
    VSTD_INLINE value_type *ptr() noexcept { return mU.a; }
    VSTD_INLINE const value_type *ptr() const noexcept { return mU.a; }
    size_t mN;
    C mCmp;
    union U
    {
        value_type a[CAP];
        U() {}
        ~U() {}
    } mU;
};

template<class K> struct __set_cap { static const size_t value = VSTD_MAP_CAP; };
template<> struct __set_cap<char> { static const size_t value = 16; };
template<class K, class C = less<K>> class set
{
    static const size_t CAP = __set_cap<K>::value;

public:
    typedef const K *iterator;
    typedef const K *const_iterator;
    set() noexcept
        : mN(0)
    {
    }
    set(const set &o)
        : mN(0)
    {
        for (size_t i = 0; i < o.mN; ++i) {
            new (ptr() + mN++) K(o.ptr()[i]);
        }
    }
    set(initializer_list<K> il)
        : mN(0)
    {
        for (const K *p = il.begin(); p != il.end(); ++p) {
            if (mN > 0 && mN < CAP && mCmp(ptr()[mN - 1], *p)) {
                new (ptr() + mN) K(*p); // already in order: append (same result as insert)
                ++mN;
            } else {
                insert(*p);
            }
        }
    }
    template<class It> set(It f, It l)
        : mN(0)
    {
        for (; f != l; ++f) {
            insert(*f);
        }
    }
    ~set() { clear(); }
    set &operator=(const set &o)
    {
        if (this != &o) {
            clear();
            for (size_t i = 0; i < o.mN; ++i) {
                new (ptr() + mN++) K(o.ptr()[i]);
            }
        }
        return *this;
    }
    VSTD_INLINE size_t size() const noexcept { return mN; }
    VSTD_INLINE bool empty() const noexcept { return mN == 0; }
    VSTD_INLINE const K *begin() const noexcept { return ptr(); }
    VSTD_INLINE const K *end() const noexcept { return ptr() + mN; }
    void clear() noexcept
    {
        while (mN > 0) {
            ptr()[--mN].~K();
        }
    }
    bool hit(size_t i, const K &k) const
    {
        if constexpr (__by_address<K, C>::value) {
            return i < mN;
        } else {
            return i < mN && !mCmp(k, ptr()[i]);
        }
    }
    const K *find(const K &k) const
    {
        size_t i = lower(k);
        return hit(i, k) ? ptr() + i : end();
    }
    VSTD_INLINE size_t count(const K &k) const { return find(k) != end() ? 1 : 0; }
    pair<const K *, bool> insert(const K &k)
    {
        size_t i = lower(k);
        if (hit(i, k)) {
            return pair<const K *, bool>(ptr() + i, false);
        }
        if (mN >= CAP) {
            __vstd_fail("vstd::set capacity exceeded");
            return pair<const K *, bool>(ptr(), false);
        }
        for (size_t j = mN; j > i; --j) {
            new (ptr() + j) K(ptr()[j - 1]);
            ptr()[j - 1].~K();
        }
        new (ptr() + i) K(k);
        ++mN;
        return pair<const K *, bool>(ptr() + i, true);
    }
    void merge(set &o)
    {
        for (size_t i = 0; i < o.mN; ++i) {
            insert(o.ptr()[i]);
        }
        o.clear();
    }
    VSTD_INLINE void merge(set &&o) { merge(o); }
    VSTD_INLINE pair<const K *, bool> emplace(const K &k) { return insert(k); }
    bool operator==(const set &o) const
    {
        if (mN != o.mN) {
            return false;
        }
        for (size_t i = 0; i < mN; ++i) {
            if (!(ptr()[i] == o.ptr()[i])) {
                return false;
            }
        }
        return true;
    }

private:
    size_t lower(const K &k) const
    {
        size_t i = 0;
        if constexpr (__by_address<K, C>::value) {
            while (i < mN && __addr_key<C>::of(ptr()[i]) != __addr_key<C>::of(k)) {
                ++i;
            }
        } else {
            while (i < mN && mCmp(ptr()[i], k)) {
                ++i;
            }
        }
        return i;
    }
    VSTD_INLINE K *ptr() noexcept { return mU.a; }
    VSTD_INLINE const K *ptr() const noexcept { return mU.a; }
    size_t mN;
    C mCmp;
    union U
    {
        K a[CAP];
        U() {}
        ~U() {}
    } mU;
};
// unordered_set / unordered_map: iteration order is unspecified in the real library; the model uses the sorted containers.
template<class K> class unordered_set: public set<K>
{
};
template<class K, class V> class unordered_map: public map<K, V>
{
public:
    using map<K, V>::map;
};

// multimap: sorted by key, equal keys in insertion order (as libstdc++ does)
template<class K, class V, class C = less<K>> class multimap
{
    static const size_t CAP = __map_cap<K, V>::value;

public:
    typedef pair<const K, V> value_type;
    typedef value_type *iterator;
    typedef const value_type *const_iterator;
    multimap() noexcept : mN(0) {}
    multimap(const multimap &o) : mN(0)
    {
        for (size_t i = 0; i < o.mN; ++i) {
            new (ptr() + mN++) value_type(o.ptr()[i]);
        }
    }
    ~multimap() { clear(); }
    multimap &operator=(const multimap &o)
    {
        if (this != &o) {
            clear();
            for (size_t i = 0; i < o.mN; ++i) {
                new (ptr() + mN++) value_type(o.ptr()[i]);
            }
        }
        return *this;
    }
    VSTD_INLINE size_t size() const noexcept { return mN; }
    VSTD_INLINE bool empty() const noexcept { return mN == 0; }
    VSTD_INLINE iterator begin() noexcept { return ptr(); }
    VSTD_INLINE iterator end() noexcept { return ptr() + mN; }
    VSTD_INLINE const_iterator begin() const noexcept { return ptr(); }
    VSTD_INLINE const_iterator end() const noexcept { return ptr() + mN; }
    void clear() noexcept
    {
        while (mN > 0) {
            ptr()[--mN].~value_type();
        }
    }
    size_t lower(const K &k) const
    {
        size_t i = 0;
        while (i < mN && mCmp(ptr()[i].first, k)) {
            ++i;
        }
        return i;
    }
    size_t upper(const K &k) const
    {
        size_t i = 0;
        while (i < mN && !mCmp(k, ptr()[i].first)) {
            ++i;
        }
        return i;
    }
    size_t count(const K &k) const { return upper(k) - lower(k); }
    iterator find(const K &k)
    {
        size_t i = lower(k);
        return (i < mN && !mCmp(k, ptr()[i].first)) ? ptr() + i : end();
    }
    const_iterator find(const K &k) const
    {
        size_t i = lower(k);
        return (i < mN && !mCmp(k, ptr()[i].first)) ? ptr() + i : end();
    }
    iterator lower_bound(const K &k) { return ptr() + lower(k); }
    iterator upper_bound(const K &k) { return ptr() + upper(k); }
    pair<iterator, iterator> equal_range(const K &k) { return pair<iterator, iterator>(ptr() + lower(k), ptr() + upper(k)); }
    pair<const_iterator, const_iterator> equal_range(const K &k) const { return pair<const_iterator, const_iterator>(ptr() + lower(k), ptr() + upper(k)); }
    iterator __insert(const value_type &v)
    {
        size_t i = upper(v.first);
        if (mN >= CAP) {
            __vstd_fail("vstd::multimap capacity exceeded");
            return ptr();
        }
        for (size_t k = mN; k > i; --k) {
            new (ptr() + k) value_type(ptr()[k - 1]);
            ptr()[k - 1].~value_type();
        }
        new (ptr() + i) value_type(v);
        ++mN;
        return ptr() + i;
    }
    iterator insert(const value_type &v) { return __insert(v); }
    template<class P, class = typename enable_if<is_convertible<P, value_type>::value>::type> iterator insert(P &&p)
    {
        value_type v(forward<P>(p));
        return __insert(v);
    }
    template<class A, class B> iterator emplace(A &&a, B &&b)
    {
        value_type v(forward<A>(a), forward<B>(b));
        return __insert(v);
    }
    iterator erase(const_iterator pos)
    {
        size_t i = (size_t)(pos - ptr());
        for (size_t k = i; k + 1 < mN; ++k) {
            ptr()[k].~value_type();
            new (ptr() + k) value_type(ptr()[k + 1]);
        }
        ptr()[--mN].~value_type();
        return ptr() + i;
    }

private:
    VSTD_INLINE value_type *ptr() noexcept { return mU.a; }
    VSTD_INLINE const value_type *ptr() const noexcept { return mU.a; }
    size_t mN;
    C mCmp;
    union U
    {
        value_type a[CAP];
        U() {}
        ~U() {}
    } mU;
};
// std::hash<std::string>: FNV-1a (any fixed function of the text is a faithful stand-in: callers only compare hashes)
template<> struct hash<string>
{
    size_t operator()(const string &s) const noexcept
    {
        size_t h = 1469598103934665603UL;
        for (size_t i = 0; i < s.size(); ++i) {
            h ^= (unsigned char)s[i];
            h *= 1099511628211UL;
        }
        if (s.__truncated()) {
            __vstd_trunc_used = 1;
        }
        return h;
    }
};

template<class... T> struct tuple;

} // namespace std
