// Out-of-line parts of vstd; compiled and linked into every model.
#include <string>
#include <sstream>
extern "C" unsigned __vstd_fmt_double_c(double v, unsigned prec, char *buf, unsigned cap);
namespace std {
string __vstd_fmt_uint(unsigned long v, int base)
{
    char tmp[24];
    int n = 0;
    if (v == 0) {
        tmp[n++] = '0';
    }
    while (v != 0) {
        unsigned d = (unsigned)(v % (unsigned long)base);
        tmp[n++] = (char)(d < 10 ? '0' + d : 'a' + (d - 10));
        v /= (unsigned long)base;
    }
    string r;
    while (n > 0) {
        r.push_back(tmp[--n]);
    }
    return r;
}
string __vstd_fmt_int(long v)
{
    if (v < 0) {
        return string("-") + __vstd_fmt_uint(0UL - (unsigned long)v, 10);
    }
    return __vstd_fmt_uint((unsigned long)v, 10);
}
string __vstd_fmt_double(double v, int precision)
{
    char buf[32];
    unsigned n = __vstd_fmt_double_c(v, (unsigned)precision, buf, 32);
    return string(buf, n);
}
string to_string(size_t v)
{
    return __vstd_fmt_uint(v, 10);
}
}
