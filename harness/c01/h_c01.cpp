// C01 (slice): no recursion without bound and no null dereference / exception in the units queries, for reference graphs over
// three user units (self-loops, 2- and 3-cycles, chains, missing and standard references).
#include <string>
#include "vh.h"
#include "libcellml/component.h"
#include "libcellml/model.h"
#include "libcellml/importsource.h"
#include "libcellml/units.h"
#include "libcellml/variable.h"
using namespace libcellml;

// The reference graph is one shape per solver query (R0, R0B, R1, R2 in 0..4: units "a","b","c", standard "second",
// missing "zz"); symbolic per query: exponents and multipliers of the unit children.
#ifndef R0
#    define R0 1
#    define R0B 3
#    define R1 2
#    define R2 3
#endif
static const char *refName(int k)
{
    return k == 0 ? "a" : k == 1 ? "b" : k == 2 ? "c" : k == 3 ? "second" : "zz";
}
struct W
{
    ModelPtr m;
    UnitsPtr u0, u1, u2;
};
static void addChild(const UnitsPtr &u, int k)
{
    int e = vin(0, 2);
    int mu = vin(0, 2);
    double exponent = e == 0 ? -1.0 : e == 1 ? 1.0 : 2.0;
    double multiplier = mu == 0 ? 1.0 : mu == 1 ? 10.0 : 1000.0;
    u->addUnit(refName(k), 0, exponent, multiplier); // (a symbolic prefix goes through int->text->table lookups: too slow here)
}
static void build(W &w)
{
    w.m = Model::create("m");
    w.u0 = Units::create("a");
    w.u1 = Units::create("b");
    w.u2 = Units::create("c");
    w.m->addUnits(w.u0);
    w.m->addUnits(w.u1);
    w.m->addUnits(w.u2);
    addChild(w.u0, R0);
    addChild(w.u0, R0B);
    addChild(w.u1, R1);
    addChild(w.u2, R2);
}
#ifdef WITNESS
#    define END() NO_UNCAUGHT(); vcheck(0, "witness")
#else
#    define END() NO_UNCAUGHT()
#endif
extern "C" void h_is_defined()
{
    W w;
    build(w);
    bool d0 = w.u0->isDefined();
    NO_UNCAUGHT_AT("Units::isDefined");
    bool dm = w.m->isDefined();
    NO_UNCAUGHT_AT("Model::isDefined");
    bool ri = w.u0->requiresImports();
    NO_UNCAUGHT_AT("Units::requiresImports");
    vout("d0", d0); vout("dm", dm); vout("ri", ri);
    vcheck(!ri, "units without imports do not require imports");
    if (dm) vcheck(d0, "a defined model has defined units");
    END();
}
extern "C" void h_scaling()
{
    W w;
    build(w);
    double f = Units::scalingFactor(w.u0, w.u1);
    NO_UNCAUGHT_AT("Units::scalingFactor");
    vout("zero", f == 0.0);
    END();
}
extern "C" void h_compatible()
{
    W w;
    build(w);
    bool c = Units::compatible(w.u0, w.u1);
    NO_UNCAUGHT_AT("Units::compatible");
    bool e = Units::equivalent(w.u1, w.u2);
    NO_UNCAUGHT_AT("Units::equivalent");
    vout("c", c); vout("e", e);
    END();
}
extern "C" void h_is_base()
{
    W w;
    build(w);
    bool b = w.u1->isBaseUnit();
    NO_UNCAUGHT_AT("Units::isBaseUnit");
    vout("b", b);
    END();
}

// units that are not owned by any model (never added, or removed again): every query returns normally
extern "C" void h_unowned()
{
    auto u = Units::create("u");
    auto v = Units::create("v");
    int e = vin(0, 2);
    u->addUnit(refName(R0), 0, e == 0 ? -1.0 : e == 1 ? 1.0 : 2.0, 1.0);
    u->addUnit(refName(R0B));
    v->addUnit(refName(R1));
    bool d = u->isDefined();
    NO_UNCAUGHT_AT("Units::isDefined (unowned)");
    bool ri = u->requiresImports();
    NO_UNCAUGHT_AT("Units::requiresImports (unowned)");
    bool b = u->isBaseUnit();
    NO_UNCAUGHT_AT("Units::isBaseUnit (unowned)");
    bool c = Units::compatible(u, v);
    NO_UNCAUGHT_AT("Units::compatible (unowned)");
    double f1 = Units::scalingFactor(u, v);
    NO_UNCAUGHT_AT("Units::scalingFactor (unowned)");
    double f2 = Units::scalingFactor(u, v, false);
    NO_UNCAUGHT_AT("Units::scalingFactor without compatibility check (unowned)");
    bool q = Units::equivalent(u, u);
    NO_UNCAUGHT_AT("Units::equivalent (unowned)");
    vout("d", d); vout("ri", ri); vout("b", b); vout("c", c); vout("f1zero", f1 == 0.0); vout("f2zero", f2 == 0.0); vout("q", q);
    END();
}

// imported units: the import source may have no model, a model with the referenced units, or a model WITHOUT them (dangling
// reference); every query on the imported units and on user units built on them returns normally
extern "C" void h_imported()
{
    auto lib = Model::create("l");
    auto present = Units::create("p");
    present->addUnit("second");
    lib->addUnits(present);
    auto m = Model::create("m");
    auto imp = ImportSource::create();
    imp->setUrl("x");
    auto d = Units::create("d");
    d->setImportSource(imp);
    std::string ref("p");
    ref[0] = (char)('p' + vin(0, 1)); // "p" exists in the library model, "q" does not
    d->setImportReference(ref);
    m->addUnits(d);
    auto user = Units::create("u");
    user->addUnit("d", 0, 2.0, 1.0);
    m->addUnits(user);
    auto w = Units::create("w");
    w->addUnit("second");
    m->addUnits(w);
    bool hasModel = vin(0, 1);
    if (hasModel) imp->setModel(lib);
    bool d1 = d->isDefined();
    NO_UNCAUGHT_AT("Units::isDefined (imported)");
    bool d2 = user->isDefined();
    NO_UNCAUGHT_AT("Units::isDefined (user units on imported units)");
    bool ri = user->requiresImports();
    NO_UNCAUGHT_AT("Units::requiresImports (imported)");
    bool b = d->isBaseUnit();
    NO_UNCAUGHT_AT("Units::isBaseUnit (imported)");
    bool c = Units::compatible(user, w);
    NO_UNCAUGHT_AT("Units::compatible (imported)");
    double f1 = Units::scalingFactor(user, w);
    NO_UNCAUGHT_AT("Units::scalingFactor (imported)");
    double f2 = Units::scalingFactor(user, w, false);
    NO_UNCAUGHT_AT("Units::scalingFactor without compatibility check (user units on imported units)");
    double f3 = Units::scalingFactor(d, w, false);
    NO_UNCAUGHT_AT("Units::scalingFactor without compatibility check (imported)");
    bool q = Units::equivalent(user, w);
    NO_UNCAUGHT_AT("Units::equivalent (imported)");
    vout("d1", d1); vout("d2", d2); vout("ri", ri); vout("b", b); vout("c", c); vout("f1zero", f1 == 0.0); vout("f2zero", f2 == 0.0); vout("f3zero", f3 == 0.0); vout("q", q);
    END();
}
