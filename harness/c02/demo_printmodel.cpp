#include <libcellml>
#include <iostream>
int main(){
  for (std::string nm : {std::string("a&b"), std::string("a<b"), std::string("a\"b"), std::string("a\tb"), std::string("ab")}) {
    auto m = libcellml::Model::create("m"); auto c = libcellml::Component::create("c"); auto v = libcellml::Variable::create(nm);
    c->addVariable(v); m->addComponent(c);
    auto p = libcellml::Printer::create(); std::string s = p->printModel(m);
    auto parser = libcellml::Parser::create(); 
    std::string back = "<none>";
    if (!s.empty()) { auto m2 = parser->parseModel(s); if (m2 && m2->componentCount() && m2->component(0)->variableCount()) back = m2->component(0)->variable(0)->name(); }
    std::cout << "[" << nm << "] printed " << s.size() << " bytes, issues " << p->issueCount() << ", name read back [" << back << "]\n";
  }
}
