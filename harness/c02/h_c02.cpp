// C02 (printer text kernel): the text PrinterImpl assembles for one element, before libxml2 re-parses it.
// The attribute value written for a name must be well-formed XML attribute text that decodes to the name; otherwise
// XmlDoc::parse() rejects the document (printModel returns "") or attribute normalisation changes the content.
#include <string>
#include "vh.h"
#define private public
#define protected public
#include "libcellml/printer.h"
#include "libcellml/variable.h"
#include "libcellml/units.h"
#include "internaltypes.h"
#include "logger_p.h"
#undef private
#undef protected
using namespace libcellml;
namespace libcellml {
// the declaration of printer.cpp, repeated: only the two member functions called below are used (no data member is touched)
class Printer::PrinterImpl: public Logger::LoggerImpl
{
public:
    Printer *mPrinter = nullptr;

    std::string printComponent(const ComponentPtr &component, IdList &idList, bool autoIds);
    std::string printEncapsulation(const ComponentPtr &component, IdList &idList, bool autoIds);
    std::string printImports(const ModelPtr &model, IdList &idList, bool autoIds);
    std::string printMath(const std::string &math);
    std::string printReset(const ResetPtr &reset, IdList &idList, bool autoIds);
    std::string printResetChild(const std::string &childLabel, const std::string &childId, const std::string &math, IdList &idList, bool autoIds);
    std::string printUnits(const UnitsPtr &units, IdList &idList, bool autoIds);
    std::string printVariable(const VariablePtr &variable, IdList &idList, bool autoIds);
};
}
#ifndef MAXLEN
#    define MAXLEN 3
#endif
#define OUTCAP (9 + 12 + 6 * MAXLEN + 1 + 2 + 1)

// XML character data (XML 1.0 Char, byte view): tab, LF, CR, and everything from 0x20 up
static bool xmlChar(unsigned char c) { return c == 9 || c == 10 || c == 13 || c >= 0x20; }

// ---- reference reader of one attribute value (XML 1.0 AttValue with '"' delimiters, entity references decoded, literal white space
//      normalised to a space as the XML processor does).  Returns the index after the closing quote, or -1 when not well-formed.
static int readAttValue(const char *t, int n, int i, char *val, int *vn)
{
    int k = 0;
    // one decoded character per iteration; a value longer than the name is unfaithful anyway, so MAXLEN + 1 iterations suffice
    for (int it = 0; it <= MAXLEN; ++it) {
        if (i >= n) return -1;
        char c = t[i];
        if (c == '"') break;
        if (c == '<') return -1;
        if (c == '&') {
            if (i + 4 < n && t[i + 1] == 'a' && t[i + 2] == 'm' && t[i + 3] == 'p' && t[i + 4] == ';') { c = '&'; i += 5; }
            else if (i + 3 < n && t[i + 1] == 'l' && t[i + 2] == 't' && t[i + 3] == ';') { c = '<'; i += 4; }
            else if (i + 3 < n && t[i + 1] == 'g' && t[i + 2] == 't' && t[i + 3] == ';') { c = '>'; i += 4; }
            else if (i + 5 < n && t[i + 1] == 'q' && t[i + 2] == 'u' && t[i + 3] == 'o' && t[i + 4] == 't' && t[i + 5] == ';') { c = '"'; i += 6; }
            else if (i + 5 < n && t[i + 1] == 'a' && t[i + 2] == 'p' && t[i + 3] == 'o' && t[i + 4] == 's' && t[i + 5] == ';') { c = '\''; i += 6; }
            else if (i + 3 < n && t[i + 1] == '#' && t[i + 2] == '9' && t[i + 3] == ';') { c = 9; i += 4; }
            else if (i + 4 < n && t[i + 1] == '#' && t[i + 2] == '1' && t[i + 3] == '0' && t[i + 4] == ';') { c = 10; i += 5; }
            else if (i + 4 < n && t[i + 1] == '#' && t[i + 2] == '1' && t[i + 3] == '3' && t[i + 4] == ';') { c = 13; i += 5; }
            else return -1;
        } else {
            if (c == 9 || c == 10 || c == 13) c = ' '; // attribute-value normalisation of literal white space
            ++i;
        }
        val[k] = c;
        ++k;
    }
    if (i >= n || t[i] != '"') return -1; // unterminated, or longer than any name in the bound
    *vn = k;
    return i + 1;
}

static bool startsWith(const char *t, int n, int i, const char *lit, int ln)
{
    if (i + ln > n) return false;
    for (int k = 0; k < ln; ++k) if (t[i + k] != lit[k]) return false;
    return true;
}

// out must be: OPEN [ name="value"] CLOSE with value decoding to the name
static bool faithfulAttr(const std::string &out, const char *open, int openLen, const char *attr, int attrLen, const char *close, int closeLen, const char *name, int n)
{
    char t[OUTCAP];
    int len = (int)out.size();
    if (len > OUTCAP) return false;
    for (int i = 0; i < OUTCAP; ++i) t[i] = i < len ? out[i] : 0;
    if (!startsWith(t, len, 0, open, openLen)) return false;
    int i = openLen;
    if (n > 0) {
        if (!startsWith(t, len, i, attr, attrLen)) return false;
        char val[MAXLEN + 2];
        int vn = 0;
        i = readAttValue(t, len, i + attrLen, val, &vn);
        if (i < 0 || vn != n) return false;
        for (int k = 0; k < MAXLEN; ++k) if (k < n && val[k] != name[k]) return false;
    }
    return startsWith(t, len, i, close, closeLen) && i + closeLen == len;
}

static bool faithful(const std::string &out, const char *open, int openLen, const char *close, int closeLen, const char *name, int n)
{
    return faithfulAttr(out, open, openLen, " name=\"", 7, close, closeLen, name, n);
}

static int mkName(std::string &s, char *buf)
{
    int n = vin(0, MAXLEN);
    for (int i = 0; i < MAXLEN; ++i) {
        char c = (char)vin(1, 255);
        buf[i] = c;
        vassume(xmlChar((unsigned char)c)); // the property speaks of strings that are XML character data
#ifdef KNOWN_UNESCAPED_ATTRIBUTE_TEXT
        vassume(c != '&' && c != '<' && c != '"' && c != 9 && c != 10 && c != 13);
#endif
        if (i < n) s.push_back(c);
    }
    return n;
}

extern "C" void h_print_variable()
{
    char buf[MAXLEN + 1];
    std::string s;
    int n = mkName(s, buf);
    auto v = Variable::create();
    v->setName(s);
    IdList ids;
    Printer::PrinterImpl impl;
    std::string out = impl.printVariable(v, ids, false);
    NO_UNCAUGHT();
    vouts("out", out);
    vcheck(faithful(out, "<variable", 9, "/>", 2, buf, n), "the printed variable element is well-formed and its name attribute decodes to the name");
#ifdef WITNESS
    vcheck(0, "witness");
#endif
}

// the same for the id and interface attributes (the variable has no name, so the attribute under test is the only one)
extern "C" void h_print_variable_id()
{
    char buf[MAXLEN + 1];
    std::string s;
    int n = mkName(s, buf);
    auto v = Variable::create();
    v->setId(s);
    IdList ids;
    Printer::PrinterImpl impl;
    std::string out = impl.printVariable(v, ids, false);
    NO_UNCAUGHT();
    vouts("out", out);
    vcheck(faithfulAttr(out, "<variable", 9, " id=\"", 5, "/>", 2, buf, n), "the printed variable element is well-formed and its id attribute decodes to the id");
#ifdef WITNESS
    vcheck(0, "witness");
#endif
}

extern "C" void h_print_variable_interface()
{
    char buf[MAXLEN + 1];
    std::string s;
    int n = mkName(s, buf);
    auto v = Variable::create();
    v->setInterfaceType(s);
    IdList ids;
    Printer::PrinterImpl impl;
    std::string out = impl.printVariable(v, ids, false);
    NO_UNCAUGHT();
    vouts("out", out);
    vcheck(faithfulAttr(out, "<variable", 9, " interface=\"", 12, "/>", 2, buf, n), "the printed variable element is well-formed and its interface attribute decodes to the stored text");
#ifdef WITNESS
    vcheck(0, "witness");
#endif
}

extern "C" void h_print_units()
{
    char buf[MAXLEN + 1];
    std::string s;
    __vrt_static_init(); // isStandardUnit consults the standard-unit table
    int n = mkName(s, buf);
    auto u = Units::create();
    u->setName(s);
    IdList ids;
    Printer::PrinterImpl impl;
    std::string out = impl.printUnits(u, ids, false);
    NO_UNCAUGHT();
    vouts("out", out);
    vcheck(faithful(out, "<units", 6, "/>", 2, buf, n), "the printed units element is well-formed and its name attribute decodes to the name");
#ifdef WITNESS
    vcheck(0, "witness");
#endif
}
