// C04 (identifier-syntax slice): the two text kernels every identifier rule of the validator goes through (validator.cpp):
// validateCellmlIdentifier()/isCellmlIdentifier() for names and references, isValidXmlName() for every id attribute.
#include <string>
#include "vh.h"
#include "libcellml/issue.h"
using namespace libcellml;
namespace libcellml {
// external linkage in validator.cpp, not declared in any header
Issue::ReferenceRule validateCellmlIdentifier(const std::string &name);
bool isCellmlIdentifier(const std::string &name);
bool isValidXmlName(const std::string &name);
}
#ifndef MAXLEN
#    define MAXLEN 4
#endif
#ifndef NCP
#    define NCP 2
#endif

// ---- reference: CellML 2.0 identifier as the validator documents it (1.3.1.1): non-empty, [A-Za-z0-9_] only, no leading digit
static bool refAlpha(char c) { return (c >= 'a' && c <= 'z') || (c >= 'A' && c <= 'Z'); }
static bool refDigit(char c) { return c >= '0' && c <= '9'; }

extern "C" void h_cellml_identifier()
{
    char buf[MAXLEN + 1];
    std::string s;
    int n = vin(0, MAXLEN);
    for (int i = 0; i < MAXLEN; ++i) {
        char c = (char)vin(1, 255);
        buf[i] = c;
        if (i < n) s.push_back(c);
    }
    bool allLegal = true;
    for (int i = 0; i < MAXLEN; ++i) {
        if (i < n && !(refAlpha(buf[i]) || refDigit(buf[i]) || buf[i] == '_')) allLegal = false;
    }
    Issue::ReferenceRule rule = validateCellmlIdentifier(s);
    bool ok = isCellmlIdentifier(s);
    NO_UNCAUGHT();
    vout("ok", ok); vout("rule", (int)rule);
    bool refOk = n > 0 && !refDigit(buf[0]) && allLegal;
    vcheck(ok == refOk, "isCellmlIdentifier accepts exactly non-empty [A-Za-z0-9_]+ without a leading digit");
    vcheck(ok == (rule == Issue::ReferenceRule::UNDEFINED), "an identifier is rejected exactly when a rule is cited");
    if (n == 0) vcheck(rule == Issue::ReferenceRule::DATA_REPR_IDENTIFIER_AT_LEAST_ONE_ALPHANUM, "empty identifier cites AT_LEAST_ONE_ALPHANUM");
    if (n > 0 && refDigit(buf[0])) vcheck(rule == Issue::ReferenceRule::DATA_REPR_IDENTIFIER_BEGIN_EURO_NUM, "leading digit cites BEGIN_EURO_NUM");
    if (n > 0 && !refDigit(buf[0]) && !allLegal) vcheck(rule == Issue::ReferenceRule::DATA_REPR_IDENTIFIER_LATIN_ALPHANUM, "illegal character cites LATIN_ALPHANUM");
#ifdef WITNESS
    vcheck(0, "witness");
#endif
}

// ---- reference: XML 1.1 Name (https://www.w3.org/TR/xml11/#NT-Name) over code points
static bool refNameStart(unsigned cp)
{
    return cp == ':' || (cp >= 'A' && cp <= 'Z') || cp == '_' || (cp >= 'a' && cp <= 'z') || (cp >= 0xC0 && cp <= 0xD6) || (cp >= 0xD8 && cp <= 0xF6)
           || (cp >= 0xF8 && cp <= 0x2FF) || (cp >= 0x370 && cp <= 0x37D) || (cp >= 0x37F && cp <= 0x1FFF) || (cp >= 0x200C && cp <= 0x200D)
           || (cp >= 0x2070 && cp <= 0x218F) || (cp >= 0x2C00 && cp <= 0x2FEF) || (cp >= 0x3001 && cp <= 0xD7FF) || (cp >= 0xF900 && cp <= 0xFDCF)
           || (cp >= 0xFDF0 && cp <= 0xFFFD) || (cp >= 0x10000 && cp <= 0xEFFFF);
}
static bool refNameChar(unsigned cp)
{
    return refNameStart(cp) || cp == '-' || cp == '.' || (cp >= '0' && cp <= '9') || cp == 0xB7 || (cp >= 0x300 && cp <= 0x36F) || (cp >= 0x203F && cp <= 0x2040);
}
// the harness is the UTF-8 encoder: every input is a well-formed sequence (ill-formed byte strings are outside the claim)
static void utf8(std::string &s, unsigned cp)
{
    if (cp < 0x80) {
        s.push_back((char)cp);
    } else if (cp < 0x800) {
        s.push_back((char)(0xC0 | (cp >> 6)));
        s.push_back((char)(0x80 | (cp & 0x3F)));
    } else if (cp < 0x10000) {
        s.push_back((char)(0xE0 | (cp >> 12)));
        s.push_back((char)(0x80 | ((cp >> 6) & 0x3F)));
        s.push_back((char)(0x80 | (cp & 0x3F)));
    } else {
        s.push_back((char)(0xF0 | (cp >> 18)));
        s.push_back((char)(0x80 | ((cp >> 12) & 0x3F)));
        s.push_back((char)(0x80 | ((cp >> 6) & 0x3F)));
        s.push_back((char)(0x80 | (cp & 0x3F)));
    }
}

extern "C" void h_xml_name()
{
    std::string s;
    int n = vin(0, NCP);
    bool ref = true;
    unsigned cp0 = (unsigned)vin(1, 0x10FFFF);
    vassume(cp0 < 0xD800 || cp0 > 0xDFFF);
    if (n > 0) {
        utf8(s, cp0);
        ref = refNameStart(cp0);
    }
    unsigned cp1 = (unsigned)vin(1, 0x10FFFF);
    vassume(cp1 < 0xD800 || cp1 > 0xDFFF);
    if (n > 1) {
        utf8(s, cp1);
        ref = ref && refNameChar(cp1);
    }
#if NCP > 2
    unsigned cp2 = (unsigned)vin(1, 0x10FFFF);
    vassume(cp2 < 0xD800 || cp2 > 0xDFFF);
    if (n > 2) {
        utf8(s, cp2);
        ref = ref && refNameChar(cp2);
    }
#endif
#if NCP > 3
    unsigned cp3 = (unsigned)vin(1, 0x10FFFF);
    vassume(cp3 < 0xD800 || cp3 > 0xDFFF);
    if (n > 3) {
        utf8(s, cp3);
        ref = ref && refNameChar(cp3);
    }
#endif
    bool ok = isValidXmlName(s);
    NO_UNCAUGHT();
    vout("ok", ok);
    // the empty string stands for "no id attribute" and is accepted
    vcheck(ok == ref, "isValidXmlName accepts exactly the XML 1.1 Name grammar on well-formed UTF-8");
#ifdef WITNESS
    vcheck(0, "witness");
#endif
}
