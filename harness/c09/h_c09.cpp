// C09: ownership invariants after one API call from a small concrete state, bad arguments never crash.
// Each root is its own micro-world (straight-line, as few objects as the scenario needs: container surgery at a symbolic
// position is only tractable on two elements).  Symbolic: names (two letters, so that "structurally identical" is a solver
// choice), which class of index (valid / one past the end / huge) and which prepared entity is passed.  Index and entity
// choices are executed with constant arguments inside each branch; the solver still chooses the branch.
#include <string>
#include "vh.h"
#include "libcellml/component.h"
#include "libcellml/model.h"
#include "libcellml/reset.h"
#include "libcellml/units.h"
#include "libcellml/variable.h"
using namespace libcellml;

static std::string name2(char base)
{
    std::string s("a");
    s[0] = (char)(base + vin(0, 1));
    return s;
}
#ifdef WITNESS
#    define END() NO_UNCAUGHT(); vcheck(0, "witness")
#else
#    define END() NO_UNCAUGHT()
#endif
// listed finding C09-structural-lookup: containers look entities up with equals(); with the define on, structurally equal
// look-alikes are assumed away and everything else is still asserted
#ifdef KNOWN_STRUCTURAL_LOOKUP
#    define DISTINCT(a, b) vassume(!(a)->equals(b) && !(b)->equals(a))
#else
#    define DISTINCT(a, b)
#endif
#define EACH_INDEX(BODY) \
    { \
        int k_ = vin(0, 4); \
        if (k_ == 0) { const size_t i = 0; BODY } \
        else if (k_ == 1) { const size_t i = 1; BODY } \
        else if (k_ == 2) { const size_t i = 2; BODY } \
        else if (k_ == 3) { const size_t i = (size_t)-1; BODY } \
        else { const size_t i = (size_t)1 << 40; BODY } \
    }

// removing a child by pointer affects exactly that child (the other child is a possible look-alike)
extern "C" void s_remove_component_pointer()
{
    auto m = Model::create("m");
    auto c1 = Component::create(name2('a'));
    auto c2 = Component::create(name2('a'));
    m->addComponent(c1);
    m->addComponent(c2);
    DISTINCT(c1, c2);
    if (vin(0, 1)) {
        bool ok = m->removeComponent(c1);
        vcheck(ok && c1->parent() == nullptr && m->componentCount() == 1 && m->component(0) == c2 && c2->parent() == m, "removing a child by pointer affects exactly that child");
    } else {
        bool ok = m->removeComponent(c2);
        vcheck(ok && c2->parent() == nullptr && m->componentCount() == 1 && m->component(0) == c1 && c1->parent() == m, "removing a child by pointer affects exactly that child");
    }
    END();
}
// an object that is not a child: refused, or matched to a structurally equal child whose own links are updated; null refused
extern "C" void s_remove_component_nonchild()
{
    auto m = Model::create("m");
    auto c1 = Component::create(name2('a'));
    auto c2 = Component::create(name2('a'));
    auto cx = Component::create(name2('a'));
    m->addComponent(c1);
    m->addComponent(c2);
    if (vin(0, 1)) {
        bool ok = m->removeComponent(cx);
        NO_UNCAUGHT_AT("removeComponent(non-child)");
        if (!ok) vcheck(m->componentCount() == 2 && c1->parent() == m && c2->parent() == m, "a refused call changes nothing");
        if (ok) {
            vcheck(m->componentCount() == 1, "matching a non-child removes exactly one child");
            ComponentPtr left = m->component(0);
            ComponentPtr gone = left == c1 ? c2 : c1;
            vcheck(left->parent() == m && gone->parent() == nullptr, "the matched child's own links are updated, the other child keeps its parent");
        }
    } else {
        bool ok = m->removeComponent(ComponentPtr());
        NO_UNCAUGHT_AT("removeComponent(null)");
        vcheck(!ok && m->componentCount() == 2 && c1->parent() == m && c2->parent() == m, "removing null is refused and changes nothing");
    }
    END();
}
extern "C" void s_remove_component_index()
{
    auto m = Model::create("m");
    auto c1 = Component::create("a");
    auto c2 = Component::create("b");
    m->addComponent(c1);
    m->addComponent(c2);
    bool take = vin(0, 1) != 0;
    EACH_INDEX(
        ComponentPtr victim = m->component(i);
        ComponentPtr taken = victim;
        bool ok = true;
        if (take) { taken = m->takeComponent(i); ok = taken != nullptr; } else { ok = m->removeComponent(i); }
        vcheck(ok == (i < 2), "removeComponent/takeComponent(index) succeed exactly for a valid index");
        if (ok) vcheck(taken == victim && victim->parent() == nullptr && m->componentCount() == 1 && m->component(0)->parent() == m && m->component(0) != victim, "removal by index affects exactly the addressed child");
        if (!ok) vcheck(m->componentCount() == 2 && c1->parent() == m && c2->parent() == m, "a refused call changes nothing");
    )
    END();
}
extern "C" void s_remove_component_name()
{
    auto m = Model::create("m");
    auto c1 = Component::create(name2('a'));
    auto c2 = Component::create(name2('a'));
    m->addComponent(c1);
    m->addComponent(c2);
    std::string n = name2('a');
    bool exists = c1->name() == n || c2->name() == n;
    ComponentPtr first = c1->name() == n ? c1 : c2;
    ComponentPtr taken = m->takeComponent(n);
    vcheck((taken != nullptr) == exists, "takeComponent(name) returns a child exactly when one has that name");
    if (taken != nullptr) vcheck(taken == first && taken->parent() == nullptr && m->componentCount() == 1 && m->component(0)->parent() == m, "taking by name detaches exactly the first child of that name");
    if (taken == nullptr) vcheck(m->componentCount() == 2, "an unknown name changes nothing");
    END();
}
extern "C" void s_replace_component()
{
    auto m = Model::create("m");
    auto c1 = Component::create("a");
    auto c2 = Component::create("b");
    auto cx = Component::create("c");
    m->addComponent(c1);
    m->addComponent(c2);
    bool useNull = vin(0, 1) != 0;
    EACH_INDEX(
        ComponentPtr old = m->component(i);
        bool ok = useNull ? m->replaceComponent(i, ComponentPtr()) : m->replaceComponent(i, cx);
        NO_UNCAUGHT_AT("replaceComponent");
        if (i >= 2 || useNull) vcheck(!ok && m->componentCount() == 2 && m->component(0) == c1 && m->component(1) == c2 && c1->parent() == m && c2->parent() == m, "replaceComponent refuses a bad index or a null replacement and changes nothing");
        if (ok) vcheck(old->parent() == nullptr && cx->parent() == m && m->component(i) == cx && m->componentCount() == 2, "replacement affects exactly the addressed child");
    )
    END();
}
// self / ancestor insertion and moving
extern "C" void s_add_component_hierarchy()
{
    auto m = Model::create("m");
    auto c1 = Component::create("a");
    auto c2 = Component::create("b");
    auto c3 = Component::create("c");
    m->addComponent(c1);
    c1->addComponent(c2);
    int k = vin(0, 4);
    bool ok = false;
    if (k == 0) {
        ok = c1->addComponent(c1); // itself, while parented
        vcheck(!ok, "a component cannot be added to itself");
    } else if (k == 1) {
        ok = c2->addComponent(c1); // its ancestor
        vcheck(!ok, "an ancestor cannot be added below its descendant");
    } else if (k == 2) {
        ok = c3->addComponent(c3); // itself, parentless
        vcheck(!ok, "a component cannot be added to itself");
    } else if (k == 3) {
        ok = m->addComponent(c2); // move up
        vcheck(ok && c2->parent() == m && c1->componentCount() == 0 && m->componentCount() == 2, "moving a component detaches it from its old parent");
    } else {
        ok = c1->addComponent(ComponentPtr());
        vcheck(!ok, "null is refused");
    }
    NO_UNCAUGHT_AT("addComponent");
    // acyclic: every parent chain ends
    ParentedEntityPtr p = c1->parent();
    int steps = 0;
    while (p != nullptr && steps < 5) { p = p->parent(); ++steps; }
    vcheck(steps < 5, "the component hierarchy is acyclic");
    p = c2->parent();
    steps = 0;
    while (p != nullptr && steps < 5) { p = p->parent(); ++steps; }
    vcheck(steps < 5, "the component hierarchy is acyclic");
    vcheck(c3->parent() != c3, "no component is its own parent");
    if (!ok) vcheck(c1->parent() == m && c2->parent() == c1 && m->componentCount() == 1 && c1->componentCount() == 1, "a refused call changes nothing");
    END();
}
// moving a variable between components (a look-alike may precede it in the old component)
extern "C" void s_move_variable()
{
    auto c1 = Component::create("a");
    auto c2 = Component::create("b");
    auto v0 = Variable::create(name2('p'));
    auto v2 = Variable::create(name2('p'));
    c2->addVariable(v0);
    c2->addVariable(v2);
    DISTINCT(v0, v2);
    bool ok = c1->addVariable(v2);
    vcheck(ok && v2->parent() == c1 && c1->variableCount() == 1 && c1->variable(0) == v2, "a moved variable is listed once by its new component");
    vcheck(c2->variableCount() == 1 && c2->variable(0) == v0 && v0->parent() == c2, "a moved variable leaves exactly its old component");
    bool no = c1->addVariable(VariablePtr());
    vcheck(!no && c1->variableCount() == 1, "addVariable refuses null");
    END();
}
extern "C" void s_remove_variable_pointer()
{
    auto c1 = Component::create("a");
    auto v1 = Variable::create(name2('p'));
    auto v2 = Variable::create(name2('p'));
    c1->addVariable(v1);
    c1->addVariable(v2);
    DISTINCT(v1, v2);
    int k = vin(0, 2);
    if (k == 0) {
        bool ok = c1->removeVariable(v1);
        vcheck(ok && v1->parent() == nullptr && c1->variableCount() == 1 && c1->variable(0) == v2 && v2->parent() == c1, "removing a variable by pointer affects exactly that variable");
    } else if (k == 1) {
        bool ok = c1->removeVariable(v2);
        vcheck(ok && v2->parent() == nullptr && c1->variableCount() == 1 && c1->variable(0) == v1 && v1->parent() == c1, "removing a variable by pointer affects exactly that variable");
    } else {
        bool ok = c1->removeVariable(VariablePtr());
        NO_UNCAUGHT_AT("removeVariable(null)");
        vcheck(!ok && c1->variableCount() == 2 && v1->parent() == c1 && v2->parent() == c1, "removing null is refused and changes nothing");
    }
    END();
}
extern "C" void s_remove_variable_index()
{
    auto c1 = Component::create("a");
    auto v1 = Variable::create("p");
    auto v2 = Variable::create("q");
    c1->addVariable(v1);
    c1->addVariable(v2);
    bool take = vin(0, 1) != 0;
    EACH_INDEX(
        VariablePtr victim = c1->variable(i);
        bool ok = true;
        if (take) { VariablePtr t = c1->takeVariable(i); ok = t != nullptr; if (ok) vcheck(t == victim, "takeVariable returns the addressed variable"); } else { ok = c1->removeVariable(i); }
        vcheck(ok == (i < 2), "removeVariable/takeVariable(index) succeed exactly for a valid index");
        if (ok) vcheck(victim->parent() == nullptr && c1->variableCount() == 1 && c1->variable(0) != victim && c1->variable(0)->parent() == c1, "removal by index affects exactly the addressed variable");
        if (!ok) vcheck(c1->variableCount() == 2 && v1->parent() == c1 && v2->parent() == c1, "a refused call changes nothing");
    )
    END();
}
extern "C" void s_units_pointer()
{
    auto m = Model::create("m");
    auto u1 = Units::create(name2('u'));
    auto u2 = Units::create(name2('u'));
    m->addUnits(u1);
    m->addUnits(u2);
    DISTINCT(u1, u2);
    int k = vin(0, 2);
    if (k == 0) {
        bool ok = m->removeUnits(u1);
        vcheck(ok && u1->parent() == nullptr && m->unitsCount() == 1 && m->units(0) == u2 && u2->parent() == m, "removing units by pointer affects exactly them");
    } else if (k == 1) {
        bool ok = m->removeUnits(u2);
        vcheck(ok && u2->parent() == nullptr && m->unitsCount() == 1 && m->units(0) == u1 && u1->parent() == m, "removing units by pointer affects exactly them");
    } else {
        bool ok = m->removeUnits(UnitsPtr());
        NO_UNCAUGHT_AT("removeUnits(null)");
        vcheck(!ok && m->unitsCount() == 2, "removing null is refused and changes nothing");
    }
    END();
}
// moving units to another model: listed once by the new model, gone from the old one (the other units of the old model stay)
extern "C" void s_move_units()
{
    auto m1 = Model::create("m");
    auto m2 = Model::create("n");
    auto u0 = Units::create(name2('u'));
    auto u2 = Units::create(name2('u'));
    m1->addUnits(u0);
    m1->addUnits(u2);
    DISTINCT(u0, u2);
    bool ok = m2->addUnits(u2);
    vcheck(ok && u2->parent() == m2 && m2->unitsCount() == 1 && m2->units(0) == u2, "moved units are listed once by their new model");
    vcheck(m1->unitsCount() == 1 && m1->units(0) == u0 && u0->parent() == m1, "moved units leave exactly their old model");
    END();
}

// replacing units by pointer: exactly the child that was passed is replaced, although the sibling may carry the same name;
// a non-child that is not structurally equal to any child is refused even if it shares a child's name
extern "C" void s_replace_units_pointer()
{
    auto m = Model::create("m");
    auto a = Units::create(name2('u'));
    auto b = Units::create(name2('u'));
    auto x = Units::create(name2('u')); // never added, no unit child: structurally different from a and b
    auto n = Units::create("n");
    a->addUnit("metre");
    b->addUnit("volt");
    m->addUnits(a);
    m->addUnits(b);
    int k = vin(0, 2);
    if (k == 0) {
        bool ok = m->replaceUnits(b, n);
        vcheck(ok && m->unitsCount() == 2 && m->units(0) == a && m->units(1) == n && n->parent() == m && b->parent() == nullptr && a->parent() == m,
               "replacing units by pointer affects exactly the units passed");
    } else if (k == 1) {
        bool ok = m->replaceUnits(x, n);
        NO_UNCAUGHT_AT("replaceUnits(non-child)");
        vcheck(!ok && m->unitsCount() == 2 && m->units(0) == a && m->units(1) == b && a->parent() == m && b->parent() == m && n->parent() == nullptr,
               "replacing units that are not in the model (and equal to none of its units) is refused and changes nothing");
    } else {
        bool ok = m->replaceUnits(UnitsPtr(), n);
        NO_UNCAUGHT_AT("replaceUnits(null)");
        vcheck(!ok && m->unitsCount() == 2 && n->parent() == nullptr, "replacing null units is refused and changes nothing");
    }
    END();
}

extern "C" void s_units_index()
{
    auto m = Model::create("m");
    auto u1 = Units::create("u");
    auto u2 = Units::create("v");
    auto ux = Units::create("z");
    m->addUnits(u1);
    m->addUnits(u2);
    int how = vin(0, 2);
    if (how == 2) {
        bool no = m->addUnits(UnitsPtr());
        bool yes = m->addUnits(ux);
        vcheck(!no && yes && ux->parent() == m && m->unitsCount() == 3, "addUnits refuses null and adopts parentless units");
    } else {
        bool useNull = vin(0, 1) != 0;
        EACH_INDEX(
            UnitsPtr old = m->units(i);
            if (how == 0) {
                bool ok = useNull ? m->replaceUnits(i, UnitsPtr()) : m->replaceUnits(i, ux);
                NO_UNCAUGHT_AT("replaceUnits");
                if (i >= 2 || useNull) vcheck(!ok && m->unitsCount() == 2 && m->units(0) == u1 && m->units(1) == u2 && u1->parent() == m && u2->parent() == m, "replaceUnits refuses a bad index or a null replacement and changes nothing");
                if (ok) vcheck(old->parent() == nullptr && ux->parent() == m && m->units(i) == ux && m->unitsCount() == 2, "replacement affects exactly the addressed units");
            } else {
                UnitsPtr t = m->takeUnits(i);
                vcheck((t != nullptr) == (i < 2), "takeUnits(index) returns units exactly for a valid index");
                if (t != nullptr) vcheck(t == old && t->parent() == nullptr && m->unitsCount() == 1 && m->units(0)->parent() == m, "taking detaches exactly the addressed units");
            }
        )
    }
    END();
}
#define EQ_CASE(X, Y) \
    { \
        VariablePtr x = X; VariablePtr y = Y; \
        bool ok = four ? Variable::addEquivalence(x, y, "m", "c") : Variable::addEquivalence(x, y); \
        NO_UNCAUGHT_AT("addEquivalence"); \
        if (x == nullptr || y == nullptr) vcheck(!ok, "addEquivalence refuses null variables"); \
        if (ok) vcheck(x->hasEquivalentVariable(y, false) && y->hasEquivalentVariable(x, false), "equivalence is symmetric"); \
        bool rm = Variable::removeEquivalence(x, y); \
        NO_UNCAUGHT_AT("removeEquivalence"); \
        if (x == nullptr || y == nullptr) vcheck(!rm, "removeEquivalence refuses null variables"); \
        if (x != nullptr && y != nullptr && x != y) vcheck(!x->hasEquivalentVariable(y, false) && !y->hasEquivalentVariable(x, false), "a removed equivalence is gone on both sides"); \
    }
extern "C" void s_equivalence_arguments()
{
    auto c1 = Component::create("a");
    auto c2 = Component::create("b");
    auto v1 = Variable::create("p");
    auto v2 = Variable::create("q");
    c1->addVariable(v1);
    c2->addVariable(v2);
#ifdef FOURARG
    const bool four = true;
#else
    const bool four = false;
#endif
    int k = vin(0, 3);
    if (k == 0) EQ_CASE(VariablePtr(), v2)
    else if (k == 1) EQ_CASE(v1, VariablePtr())
    else if (k == 2) EQ_CASE(VariablePtr(), VariablePtr())
    else EQ_CASE(v1, v2)
    END();
}
extern "C" void s_resets_and_bulk()
{
    auto m = Model::create("m");
    auto c1 = Component::create("a");
    auto c2 = Component::create("b");
    auto v1 = Variable::create("p");
    auto r1 = Reset::create();
    auto u1 = Units::create("u");
    c1->addVariable(v1);
    c1->addReset(r1);
    c1->addComponent(c2);
    m->addComponent(c1);
    m->addUnits(u1);
    int how = vin(0, 3);
    if (how == 0) {
        bool ok = c1->addReset(ResetPtr());
        vcheck(!ok && c1->resetCount() == 1, "addReset refuses null");
    } else if (how == 1) {
        EACH_INDEX(
            bool ok = c1->removeReset(i);
            vcheck(ok == (i < 1), "removeReset(index) succeeds exactly for a valid index");
            if (ok) vcheck(r1->parent() == nullptr && c1->resetCount() == 0, "removal affects exactly the addressed reset");
        )
    } else if (how == 2) {
        m->removeAllComponents();
        vcheck(m->componentCount() == 0 && c1->parent() == nullptr && c2->parent() == c1, "removeAllComponents detaches exactly the direct children");
    } else {
        c1->removeAllVariables();
        c1->removeAllResets();
        m->removeAllUnits();
        vcheck(c1->variableCount() == 0 && v1->parent() == nullptr && c1->resetCount() == 0 && r1->parent() == nullptr && m->unitsCount() == 0 && u1->parent() == nullptr, "removeAll detaches every child");
    }
    END();
}

// removal through the encapsulation hierarchy affects exactly the addressed component, also when later subtrees hold look-alikes
extern "C" void s_remove_component_encapsulated()
{
    auto m = Model::create("m");
    auto a = Component::create("a");
    auto b = Component::create("b");
    auto la = Component::create("l"); // structurally identical leaves
    auto lb = Component::create("l");
    a->addComponent(la);
    b->addComponent(lb);
    m->addComponent(a);
    m->addComponent(b);
    // listed finding C09-lookalike-in-earlier-subtree: the encapsulation search matches structurally inside each subtree before
    // it tries the next one, so asking for lb removes la; with the define on only the first subtree's component is asked for
#ifdef KNOWN_LOOKALIKE_EARLIER_SUBTREE
    int which = vin(1, 1);
#else
    int which = vin(0, 1);
#endif
    if (which) {
        bool ok = m->removeComponent(la, true);
        vcheck(ok && la->parent() == nullptr && a->componentCount() == 0, "removing a grandchild through the encapsulation search removes it");
        vcheck(lb->parent() == b && b->componentCount() == 1 && b->component(0) == lb, "removing one component leaves its look-alike in another subtree alone");
    } else {
        bool ok = m->removeComponent(lb, true);
        vcheck(ok && lb->parent() == nullptr && b->componentCount() == 0, "removing a grandchild through the encapsulation search removes it");
        vcheck(la->parent() == a && a->componentCount() == 1 && a->component(0) == la, "removing one component leaves its look-alike in another subtree alone");
    }
    vcheck(m->componentCount() == 2 && a->parent() == m && b->parent() == m, "the direct children are untouched");
    END();
}

// ---- histories of length two or three (each call from the state the previous one left)
extern "C" void s_history_move_then_remove()
{
    auto c1 = Component::create("a");
    auto c2 = Component::create("b");
    auto v1 = Variable::create(name2('p'));
    auto v2 = Variable::create(name2('p'));
    c1->addVariable(v1);
    c2->addVariable(v2);
    bool moved = c2->addVariable(v1);
    vcheck(moved && v1->parent() == c2 && c1->variableCount() == 0 && c2->variableCount() == 2, "a moved variable changes owner");
    bool stale = c1->removeVariable(v1);
    vcheck(!stale || c2->variableCount() == 2, "removing a variable from its former owner does not disturb the new owner");
    vcheck(v2->parent() == c2, "the variables of the new owner keep their parent");
    if (vin(0, 1)) {
        bool ok = c2->removeVariable(v1);
        vcheck(ok && v1->parent() == nullptr && c2->variableCount() == 1 && c2->variable(0) == v2 && v2->parent() == c2, "removing the moved variable affects exactly it");
    } else {
        bool ok = c2->removeVariable(v2);
        vcheck(ok && v2->parent() == nullptr && c2->variableCount() == 1 && c2->variable(0) == v1 && v1->parent() == c2, "removing the resident variable affects exactly it");
    }
    END();
}
extern "C" void s_history_replace_then_readd()
{
    auto m = Model::create("m");
    auto c1 = Component::create("a");
    auto c2 = Component::create("b");
    auto cx = Component::create("c");
    m->addComponent(c1);
    m->addComponent(c2);
    bool rep = m->replaceComponent(0, cx);
    vcheck(rep && c1->parent() == nullptr && cx->parent() == m && m->component(0) == cx, "replacement swaps exactly the addressed child");
    bool back = m->addComponent(c1);
    vcheck(back && c1->parent() == m && m->componentCount() == 3 && m->component(2) == c1, "a replaced component can be added again and is listed once");
    bool again = m->removeComponent(cx);
    vcheck(again && cx->parent() == nullptr && m->componentCount() == 2 && m->component(0) == c2 && m->component(1) == c1, "removing the replacement affects exactly it");
    END();
}
extern "C" void s_history_reset_remove_then_move()
{
    auto c1 = Component::create("a");
    auto c2 = Component::create("b");
    auto r1 = Reset::create();
    auto r2 = Reset::create(); // structurally identical to r1
    c1->addReset(r1);
    c1->addReset(r2);
    bool take = vin(0, 1) != 0;
    if (take) {
        ResetPtr t = c1->takeReset(0);
        vcheck(t == r1, "takeReset returns the addressed reset");
    } else {
        bool ok = c1->removeReset(0);
        vcheck(ok, "removeReset(0) succeeds");
    }
    vcheck(r1->parent() == nullptr && c1->resetCount() == 1 && c1->reset(0) == r2 && r2->parent() == c1, "removing a reset by index affects exactly it");
    bool added = c2->addReset(r1);
    vcheck(added && r1->parent() == c2 && c2->resetCount() == 1, "the removed reset can be added elsewhere");
    vcheck(c1->resetCount() == 1 && c1->reset(0) == r2 && r2->parent() == c1, "adding it elsewhere leaves its look-alike in the old component alone");
    END();
}
