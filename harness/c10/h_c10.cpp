// C10: equals() on components (variables, resets, child components), models (units) and units (unit children).
// Straight-line construction; the numbers of children (NA, NB) and the KIND are fixed per solver query by the driver,
// every attribute of every child is symbolic data.
#include <string>
#include "vh.h"
#include "libcellml/component.h"
#include "libcellml/model.h"
#include "libcellml/reset.h"
#include "libcellml/units.h"
#include "libcellml/variable.h"
#include "libcellml/importsource.h"
using namespace libcellml;
#ifndef NA
#    define NA 1
#endif
#ifndef NB
#    define NB 2
#endif
// KIND: 1 variables, 2 resets, 3 child components, 4 model units, 5 unit children
#ifndef KIND
#    define KIND 1
#endif
#ifndef ALPHA
#    define ALPHA 3
#endif

// ATTR selects which attribute of the children is symbolic in this query (0 = all of them); the others are constants.
#ifndef ATTR
#    define ATTR 0
#endif
// every symbolic choice made for a child is folded into that child's code, so that the harness knows - independently of
// equals() - whether two children were given identical attributes (the sensitivity oracle)
static long gCode[6];
static int gChild = -1;
static void newChild()
{
    ++gChild;
    gCode[gChild] = 1;
}
static int pick(int lo, int hi)
{
    int k = vin(lo, hi);
    gCode[gChild] = gCode[gChild] * 16 + (k - lo);
    return k;
}
static std::string sym(int attr, char base)
{
    std::string s;
    if (ATTR == 0 || ATTR == attr) {
        int k = pick(0, ALPHA); // "", or one character out of ALPHA letters
        if (k > 0) s.push_back((char)(base + k - 1));
    }
    return s;
}
static int symInt(int attr, int lo, int hi, int dflt)
{
    return (ATTR == 0 || ATTR == attr) ? pick(lo, hi) : dflt;
}
static VariablePtr mkVar()
{
    newChild();
    auto v = Variable::create(sym(1, 'x'));
    v->setId(sym(2, 'i'));
    v->setInitialValue(sym(3, '1'));
    if (ATTR == 0 || ATTR == 4) {
        std::string u("u");
        u[0] = (char)('u' + pick(0, 1)); // units by name: always present (an optional allocation would make the heap shape symbolic)
        v->setUnits(u);
    }
    int it = symInt(5, 0, 4, 4);
    if (it < 4) v->setInterfaceType((Variable::InterfaceType)it);
    if (ATTR == 6 || ATTR == 7) {
        // units given as an object: same name on both sides, differing (symbolically) in the id or in having a unit child
        auto u = Units::create("w");
        u->setId(sym(6, 'i'));
        if (symInt(7, 0, 1, 0)) u->addUnit("metre");
        v->setUnits(u);
    }
    return v;
}
static ResetPtr mkReset(const VariablePtr &v1, const VariablePtr &v2)
{
    newChild();
    auto r = Reset::create();
    r->setId(sym(1, 'i'));
    {
        // equality covers the order value (an unset order reads as 0), not the presence flag: fold the effective value
        long before = gCode[gChild];
        bool set = symInt(2, 0, 1, 0) != 0;
        int order = set ? symInt(2, 0, 2, 1) : 0;
        if (set) r->setOrder(order);
        if (ATTR == 0 || ATTR == 2) gCode[gChild] = before * 16 + order;
    }
    int a = symInt(3, 0, 2, 1);
    if (a == 1) r->setVariable(v1);
    if (a == 2) r->setVariable(v2);
    int b = symInt(4, 0, 2, 2);
    if (b == 1) r->setTestVariable(v1);
    if (b == 2) r->setTestVariable(v2);
    r->setTestValue(sym(5, 't'));
    r->setResetValue(sym(6, 'r'));
    r->setTestValueId(sym(7, 'j'));
    r->setResetValueId(sym(8, 'k'));
    return r;
}
static ComponentPtr mkComp()
{
    newChild();
    auto c = Component::create(sym(1, 'c'));
    c->setId(sym(2, 'i'));
    c->setEncapsulationId(sym(3, 'e'));
    c->setMath(sym(4, 'm'));
    c->setImportReference(sym(5, 'n'));
    return c;
}
static double symNum(int attr)
{
    // values that are identical or far more than one ulp apart
    int k = symInt(attr, 0, 3, 0);
    return k == 0 ? 1.0 : k == 1 ? 2.0 : k == 2 ? -1.0 : 0.5;
}
static void addUnitTo(const UnitsPtr &u)
{
#if KIND == 5
    newChild();
#endif
    // one input per statement: the order of evaluation of call arguments differs between compilers
    std::string ref = sym(1, 'r');
    std::string pre = sym(2, 'p');
    double ex = symNum(3);
    double mu = symNum(4);
    std::string uid = sym(5, 'i');
    u->addUnit(ref, pre, ex, mu, uid);
}
static UnitsPtr mkUnits()
{
    newChild();
    auto u = Units::create(sym(6, 'u'));
    u->setId(sym(7, 'i'));
    u->setImportReference(sym(8, 'n'));
    addUnitTo(u);
    return u;
}

#define CHECKS(a, b) \
    bool aa = a->equals(a); \
    bool ab = a->equals(b); \
    bool ba = b->equals(a); \
    vout("ab", ab); vout("ba", ba); \
    NO_UNCAUGHT(); \
    vcheck(aa, "equals is reflexive"); \
    if (NA == NB || !KNOWN_COUNT_ASYMMETRY) vcheck(ab == ba, "equals is symmetric"); \
    if (NA > NB) vcheck(!ab, "different numbers of children: the side with more children is not equal to the other"); \
    if (NB > NA) vcheck(!ba, "different numbers of children: the side with more children is not equal to the other"); \
    if (NA != NB && !KNOWN_COUNT_ASYMMETRY) vcheck(!ab && !ba, "equals is false for different numbers of children"); \
    if (NA == 1 && NB == 1) vcheck(ab == (gCode[0] == gCode[1]), "equals is true exactly when the two children were given the same attributes"); \
    if (NA == 2 && NB == 2) vcheck(ab == ((gCode[0] == gCode[2] && gCode[1] == gCode[3]) || (gCode[0] == gCode[3] && gCode[1] == gCode[2])), "equals is true exactly when the children match pairwise in some order");

// the count asymmetry of variables / resets / model units is a listed finding (known_findings.json): with the define on,
// the claims that it breaks are not asserted for shapes with different counts; everything else still is.
#ifndef KNOWN_COUNT_ASYMMETRY
#    define KNOWN_COUNT_ASYMMETRY 0
#endif

extern "C" void h_equals()
{
#if KIND == 1
    auto a = Component::create("c");
    auto b = Component::create("c");
#    if NA >= 1
    a->addVariable(mkVar());
#    endif
#    if NA >= 2
    a->addVariable(mkVar());
#    endif
#    if NB >= 1
    b->addVariable(mkVar());
#    endif
#    if NB >= 2
    b->addVariable(mkVar());
#    endif
#elif KIND == 2
    auto a = Component::create("c");
    auto b = Component::create("c");
    auto va1 = Variable::create("p"); auto va2 = Variable::create("q");
    auto vb1 = Variable::create("p"); auto vb2 = Variable::create("q");
    a->addVariable(va1); a->addVariable(va2); b->addVariable(vb1); b->addVariable(vb2);
#    if NA >= 1
    a->addReset(mkReset(va1, va2));
#    endif
#    if NA >= 2
    a->addReset(mkReset(va1, va2));
#    endif
#    if NB >= 1
    b->addReset(mkReset(vb1, vb2));
#    endif
#    if NB >= 2
    b->addReset(mkReset(vb1, vb2));
#    endif
#elif KIND == 3
    auto a = Component::create("c");
    auto b = Component::create("c");
#    if NA >= 1
    a->addComponent(mkComp());
#    endif
#    if NA >= 2
    a->addComponent(mkComp());
#    endif
#    if NB >= 1
    b->addComponent(mkComp());
#    endif
#    if NB >= 2
    b->addComponent(mkComp());
#    endif
#elif KIND == 4
    auto a = Model::create("m");
    auto b = Model::create("m");
#    if NA >= 1
    a->addUnits(mkUnits());
#    endif
#    if NA >= 2
    a->addUnits(mkUnits());
#    endif
#    if NB >= 1
    b->addUnits(mkUnits());
#    endif
#    if NB >= 2
    b->addUnits(mkUnits());
#    endif
#elif KIND == 5
    auto a = Units::create("u");
    auto b = Units::create("u");
#    if NA >= 1
    addUnitTo(a);
#    endif
#    if NA >= 2
    addUnitTo(a);
#    endif
#    if NB >= 1
    addUnitTo(b);
#    endif
#    if NB >= 2
    addUnitTo(b);
#    endif
#endif
#ifdef TRANS
    // a third entity of the same kind with NB children, for transitivity
#    if KIND == 1
    auto c = Component::create("c");
#        if NB >= 1
    c->addVariable(mkVar());
#        endif
#        if NB >= 2
    c->addVariable(mkVar());
#        endif
#    elif KIND == 2
    auto c = Component::create("c");
    auto vc1 = Variable::create("p"); auto vc2 = Variable::create("q");
    c->addVariable(vc1); c->addVariable(vc2);
#        if NB >= 1
    c->addReset(mkReset(vc1, vc2));
#        endif
#        if NB >= 2
    c->addReset(mkReset(vc1, vc2));
#        endif
#    elif KIND == 3
    auto c = Component::create("c");
#        if NB >= 1
    c->addComponent(mkComp());
#        endif
#        if NB >= 2
    c->addComponent(mkComp());
#        endif
#    elif KIND == 4
    auto c = Model::create("m");
#        if NB >= 1
    c->addUnits(mkUnits());
#        endif
#        if NB >= 2
    c->addUnits(mkUnits());
#        endif
#    elif KIND == 5
    auto c = Units::create("u");
#        if NB >= 1
    addUnitTo(c);
#        endif
#        if NB >= 2
    addUnitTo(c);
#        endif
#    endif
    {
        bool t_ab = a->equals(b);
        bool t_bc = b->equals(c);
        bool t_ac = a->equals(c);
        if (t_ab && t_bc) vcheck(t_ac, "equals is transitive");
    }
#endif
#if KIND == 3 && defined(KNOWN_DUPLICATE_CHILDREN)
    // listed finding: child components are matched with containsComponent(), so a side holding two equal children is
    // "equal" to a side holding one of them plus something else; excluded here, everything else is still asserted
#    if NA == 2
    vassume(!a->component(0)->equals(a->component(1)));
#    endif
#    if NB == 2
    vassume(!b->component(0)->equals(b->component(1)));
#    endif
#endif
    CHECKS(a, b)
#ifdef WITNESS
    vcheck(0, "witness");
#endif
}
