#include "libcellml/component.h"
#include "libcellml/variable.h"
#include "vh.h"
using namespace libcellml;
static VariablePtr mkVar()
{
    int k = vin(0, 2);
    std::string n("x");
    n[0] = (char)('x' + k);
    auto v = Variable::create(n);
    int i = vin(0, 1);
    std::string iv("1");
    iv[0] = (char)('1' + i);
    v->setInitialValue(iv);
    return v;
}
extern "C" void h_probe()
{
    auto a = Component::create("c");
    auto b = Component::create("c");
#if NA >= 1
    a->addVariable(mkVar());
#endif
#if NA >= 2
    a->addVariable(mkVar());
#endif
#if NB >= 1
    b->addVariable(mkVar());
#endif
#if NB >= 2
    b->addVariable(mkVar());
#endif
    bool ab = a->equals(b);
    bool ba = b->equals(a);
    NO_UNCAUGHT();
    vcheck(ab == ba, "equals is symmetric");
}
