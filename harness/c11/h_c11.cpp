// C11: clone() is a faithful, independent deep copy.  One concrete skeleton (model / units+unit / component with a child
// component / two variables joined by an equivalence with ids / a reset), every attribute symbolic; straight-line code.
#include <string>
#include "vh.h"
#include "libcellml/component.h"
#include "libcellml/importsource.h"
#include "libcellml/model.h"
#include "libcellml/reset.h"
#include "libcellml/units.h"
#include "libcellml/variable.h"
using namespace libcellml;

// GROUP selects which attributes are symbolic in this query: 1 model+units, 2 components, 3 variables+equivalence ids, 4 reset; 0 = all
#ifndef GROUP
#    define GROUP 0
#endif
static int gCur = 0;
static std::string sym(char base)
{
    std::string s;
    if (GROUP == 0 || GROUP == gCur) {
        int k = vin(0, 2);
        if (k > 0) s.push_back((char)(base + k - 1));
    } else {
        s.push_back(base);
    }
    return s;
}
static int symI(int lo, int hi, int dflt)
{
    return (GROUP == 0 || GROUP == gCur) ? vin(lo, hi) : dflt;
}
#ifdef DISTINCT_TESTVAR
#    define NV1 2
#    define TESTVAR_INDEX 1
#else
#    define NV1 1
#    define TESTVAR_INDEX 0
#endif
#define SAME(what, a, b) vcheck((a) == (b), "clone preserves " what)

struct Skeleton
{
    ModelPtr m;
    UnitsPtr u;
    ComponentPtr c1, c2;
    VariablePtr v1, v2, v3;
    ResetPtr r;
};
static void build(Skeleton &s)
{
    gCur = 1;
    s.m = Model::create(sym('m'));
    s.m->setId(sym('a'));
    s.m->setEncapsulationId(sym('b'));
    s.u = Units::create("U");
    s.u->setId(sym('c'));
    {
        // one input per statement: the order of evaluation of call arguments differs between compilers
        std::string ref = sym('r');
        std::string pre = sym('p');
        double ex = symI(0, 1, 1) ? 2.0 : -1.0;
        double mu = symI(0, 1, 0) ? 1.0 : 1000.0;
        std::string uid = sym('d');
        s.u->addUnit(ref, pre, ex, mu, uid);
    }
    s.m->addUnits(s.u);
    gCur = 2;
    s.c1 = Component::create("C");
    s.c1->setId(sym('e'));
    s.c1->setEncapsulationId(sym('f'));
    s.c1->setMath(sym('g'));
    s.c2 = Component::create("D");
    s.c2->setId(sym('h'));
    s.c2->setEncapsulationId(sym('i'));
    gCur = 3;
    s.v1 = Variable::create("v");
    s.v1->setId(sym('j'));
    s.v1->setInitialValue(sym('1'));
    s.v1->setUnits(s.u);
    int it = symI(0, 4, 2);
    if (it < 4) s.v1->setInterfaceType((Variable::InterfaceType)it);
    s.v2 = Variable::create("w");
    s.v2->setUnits("second");
    s.c1->addVariable(s.v1);
#ifdef DISTINCT_TESTVAR
    s.v3 = Variable::create("t"); // the reset's test variable is a second variable of the component (parts roots only: it makes the model queries 10x slower)
    s.c1->addVariable(s.v3);
#endif
    s.c2->addVariable(s.v2);
    s.c1->addComponent(s.c2);
    s.m->addComponent(s.c1);
#ifdef WITH_EQUIV
    {
        std::string mid = sym('k');
        std::string cid = sym('l');
        Variable::addEquivalence(s.v1, s.v2, mid, cid);
    }
#endif
    gCur = 4;
    s.r = Reset::create();
    s.r->setId(sym('n'));
    if (symI(0, 1, 0)) s.r->setOrder(symI(-1, 1, 1));
    s.r->setVariable(s.v1);
#ifdef DISTINCT_TESTVAR
    s.r->setTestVariable(s.v3); // a different variable of the same component
#else
    s.r->setTestVariable(s.v1);
#endif
    s.r->setTestValue(sym('t'));
    s.r->setTestValueId(sym('o'));
    s.r->setResetValue(sym('q'));
    s.r->setResetValueId(sym('s'));
    s.c1->addReset(s.r);
}

static void compareReset(const ResetPtr &r, const ResetPtr &k)
{
    SAME("the reset id", r->id(), k->id());
    SAME("whether the reset order is set", r->isOrderSet(), k->isOrderSet());
    if (r->isOrderSet()) SAME("the reset order", r->order(), k->order());
    SAME("the reset test value", r->testValue(), k->testValue());
    SAME("the reset test value id", r->testValueId(), k->testValueId());
    SAME("the reset value", r->resetValue(), k->resetValue());
    SAME("the reset value id", r->resetValueId(), k->resetValueId());
}
static void compareVariable(const VariablePtr &v, const VariablePtr &k)
{
    SAME("the variable name", v->name(), k->name());
    SAME("the variable id", v->id(), k->id());
    SAME("the variable initial value", v->initialValue(), k->initialValue());
    SAME("the variable interface", v->interfaceType(), k->interfaceType());
    SAME("the variable units name", v->units()->name(), k->units()->name());
}
static void compareUnits(const UnitsPtr &u, const UnitsPtr &k)
{
    SAME("the units name", u->name(), k->name());
    SAME("the units id", u->id(), k->id());
    SAME("the unit count", u->unitCount(), k->unitCount());
    if (k->unitCount() == 1) {
        SAME("the unit reference", u->unitAttributeReference(0), k->unitAttributeReference(0));
        SAME("the unit prefix", u->unitAttributePrefix(0), k->unitAttributePrefix(0));
        SAME("the unit exponent", u->unitAttributeExponent(0), k->unitAttributeExponent(0));
        SAME("the unit multiplier", u->unitAttributeMultiplier(0), k->unitAttributeMultiplier(0));
        SAME("the unit id", u->unitId(0), k->unitId(0));
    }
}

extern "C" void h_clone_model()
{
    Skeleton s;
    build(s);
    ModelPtr k = s.m->clone();
    NO_UNCAUGHT();
    vcheck(k != nullptr && k != s.m, "clone returns a new object");
    if (k == nullptr) return;
    vcheck(!k->hasParent(), "a clone has no parent");
    SAME("the model name", s.m->name(), k->name());
    SAME("the model id", s.m->id(), k->id());
    SAME("the model encapsulation id", s.m->encapsulationId(), k->encapsulationId());
    vcheck(k->unitsCount() == 1 && k->componentCount() == 1, "clone preserves the numbers of units and components");
    if (!(k->unitsCount() == 1 && k->componentCount() == 1)) return;
    compareUnits(s.u, k->units(0));
    ComponentPtr kc1 = k->component(0);
    SAME("the component name", s.c1->name(), kc1->name());
    SAME("the component id", s.c1->id(), kc1->id());
    SAME("the component encapsulation id", s.c1->encapsulationId(), kc1->encapsulationId());
    SAME("the component math", s.c1->math(), kc1->math());
    vcheck(kc1->componentCount() == 1 && kc1->variableCount() == NV1 && kc1->resetCount() == 1, "clone preserves the numbers of children of a component");
    if (!(kc1->componentCount() == 1 && kc1->variableCount() == NV1 && kc1->resetCount() == 1)) return;
    ComponentPtr kc2 = kc1->component(0);
    SAME("the child component name", s.c2->name(), kc2->name());
    SAME("the child component id", s.c2->id(), kc2->id());
    SAME("the child component encapsulation id", s.c2->encapsulationId(), kc2->encapsulationId());
    VariablePtr kv1 = kc1->variable(0);
    VariablePtr kv2 = kc2->variable(0);
    compareVariable(s.v1, kv1);
    vcheck(kv1->units() == k->units(0), "a cloned variable uses the clone's own units object");
    vcheck(kv2->units() != nullptr && kv2->units() != s.v2->units(), "a cloned variable never shares a units object with the original (standard-named units included)");
    ResetPtr kr = kc1->reset(0);
    compareReset(s.r, kr);
    vcheck(kr->variable() == kv1 && kr->testVariable() == kc1->variable(TESTVAR_INDEX), "a cloned reset refers to the clone's own variables, each at its own position");
#ifdef WITH_EQUIV
    // equivalences: present, between the clone's own variables, with the same ids
    vcheck(kv1->equivalentVariableCount() == 1 && kv2->equivalentVariableCount() == 1, "clone preserves variable equivalences");
    if (kv1->equivalentVariableCount() == 1) {
        vcheck(kv1->equivalentVariable(0) == kv2, "equivalences of a cloned model connect the clone's own variables");
        SAME("the equivalence mapping id", Variable::equivalenceMappingId(s.v1, s.v2), Variable::equivalenceMappingId(kv1, kv2));
        SAME("the equivalence connection id", Variable::equivalenceConnectionId(s.v1, s.v2), Variable::equivalenceConnectionId(kv1, kv2));
    }
    vcheck(s.v1->equivalentVariableCount() == 1 && s.v1->equivalentVariable(0) == s.v2, "cloning leaves the original's equivalences alone");
#endif
    vcheck(k->equals(s.m) && s.m->equals(k), "a clone equals the original");
    NO_UNCAUGHT();
#ifdef WITNESS
    vcheck(0, "witness");
#endif
}

extern "C" void h_clone_independent()
{
    Skeleton s;
    build(s);
    ModelPtr k = s.m->clone();
    NO_UNCAUGHT();
    if (k == nullptr || k->unitsCount() != 1 || k->componentCount() != 1) return;
    ComponentPtr kc1 = k->component(0);
    if (kc1->componentCount() != 1 || kc1->variableCount() != NV1 || kc1->resetCount() != 1) return;
    VariablePtr kv1 = kc1->variable(0);
    VariablePtr kv2 = kc1->component(0)->variable(0);
    ResetPtr kr = kc1->reset(0);
    // independence: one mutation of the clone (symbolic choice) leaves the original's content unchanged
    std::string n0 = s.c1->name(), iv0 = s.v1->initialValue(), un0 = s.u->name(), rv0 = s.r->resetValue();
#ifdef WITH_EQUIV
    std::string mid0 = Variable::equivalenceMappingId(s.v1, s.v2);
#endif
    size_t uc0 = s.u->unitCount();
#ifdef WITH_EQUIV
    int mut = vin(0, 5);
#else
    int mut = vin(0, 4);
#endif
    if (mut == 0) kc1->setName("Z");
    if (mut == 1) kv1->setInitialValue("9");
    if (mut == 2) k->units(0)->setName("Y");
    if (mut == 3) kr->setResetValue("z");
    if (mut == 4) k->units(0)->addUnit("metre");
#ifdef WITH_EQUIV
    if (mut == 5) Variable::setEquivalenceMappingId(kv1, kv2, "zz");
    vcheck(Variable::equivalenceMappingId(s.v1, s.v2) == mid0, "changing the clone's equivalence ids leaves the original unchanged");
#endif
    vcheck(s.c1->name() == n0 && s.v1->initialValue() == iv0 && s.u->name() == un0 && s.r->resetValue() == rv0 && s.u->unitCount() == uc0,
           "changing the clone leaves the original unchanged");
    NO_UNCAUGHT();
#ifdef WITNESS
    vcheck(0, "witness");
#endif
}

// lone entities: component (equivalences documented not to be copied), variable, reset, units
extern "C" void h_clone_parts()
{
    Skeleton s;
    build(s);
    ComponentPtr kc = s.c1->clone();
    NO_UNCAUGHT();
    vcheck(!kc->hasParent(), "a cloned component has no parent");
    SAME("the component name", s.c1->name(), kc->name());
    SAME("the component id", s.c1->id(), kc->id());
    SAME("the component encapsulation id", s.c1->encapsulationId(), kc->encapsulationId());
    SAME("the component math", s.c1->math(), kc->math());
    vcheck(kc->componentCount() == 1 && kc->variableCount() == NV1 && kc->resetCount() == 1, "clone preserves the numbers of children of a component");
    if (kc->componentCount() == 1 && kc->variableCount() == NV1 && kc->resetCount() == 1) {
        SAME("the child component encapsulation id", s.c2->encapsulationId(), kc->component(0)->encapsulationId());
        compareVariable(s.v1, kc->variable(0));
        compareReset(s.r, kc->reset(0));
        vcheck(kc->reset(0)->variable() == kc->variable(0) && kc->reset(0)->testVariable() == kc->variable(TESTVAR_INDEX), "a cloned reset refers to the clone's own variables, each at its own position");
        vcheck(kc->variable(0)->equivalentVariableCount() == 0, "a lone cloned component carries no equivalences");
    }
    ResetPtr kr = s.r->clone();
    compareReset(s.r, kr);
    vcheck(kr->equals(s.r), "a cloned reset equals the original");
    VariablePtr kv = s.v1->clone();
    compareVariable(s.v1, kv);
    vcheck(kv->units() != s.v1->units(), "a cloned variable does not share its units object with the original");
    VariablePtr kw = s.v2->clone();
    vcheck(kw->units() != nullptr && kw->units() != s.v2->units(), "a cloned variable never shares a units object with the original (standard-named units included)");
    kw->units()->setName("fortnight");
    vcheck(s.v2->units()->name() == "second", "renaming the clone's units leaves the original's units alone");
    vcheck(!kv->hasParent() && kv->equivalentVariableCount() == 0, "a cloned variable has no parent and no equivalences");
    UnitsPtr ku = s.u->clone();
    compareUnits(s.u, ku);
    vcheck(!ku->hasParent() && ku->equals(s.u), "cloned units have no parent and equal the original");
    NO_UNCAUGHT();
#ifdef WITNESS
    vcheck(0, "witness");
#endif
}

// equivalences of a cloned model: minimal skeleton (two components, two variables, one equivalence with ids)
extern "C" void h_clone_equivalence()
{
    auto m = Model::create("m");
    auto c1 = Component::create("a");
    auto c2 = Component::create("b");
    auto v1 = Variable::create("v");
    auto v2 = Variable::create("w");
    c1->addVariable(v1);
    c2->addVariable(v2);
    m->addComponent(c1);
    m->addComponent(c2);
    std::string mid;
    std::string cid;
    int k1 = vin(0, 2);
    if (k1 > 0) mid.push_back((char)('k' + k1 - 1));
    int k2 = vin(0, 2);
    if (k2 > 0) cid.push_back((char)('p' + k2 - 1));
    Variable::addEquivalence(v1, v2, mid, cid);
    ModelPtr k = m->clone();
    NO_UNCAUGHT();
    vcheck(k != nullptr && k->componentCount() == 2, "clone preserves the components");
    if (k == nullptr || k->componentCount() != 2) return;
    VariablePtr kv1 = k->component(0)->variable(0);
    VariablePtr kv2 = k->component(1)->variable(0);
    vcheck(kv1 != nullptr && kv2 != nullptr && kv1 != v1 && kv2 != v2, "clone has its own variables");
    if (kv1 == nullptr || kv2 == nullptr) return;
    vcheck(kv1->equivalentVariableCount() == 1 && kv2->equivalentVariableCount() == 1, "clone preserves variable equivalences");
    if (kv1->equivalentVariableCount() == 1) {
        vcheck(kv1->equivalentVariable(0) == kv2, "equivalences of a cloned model connect the clone's own variables");
        vcheck(Variable::equivalenceMappingId(kv1, kv2) == mid, "clone preserves the equivalence mapping id");
        vcheck(Variable::equivalenceConnectionId(kv1, kv2) == cid, "clone preserves the equivalence connection id");
    }
    vcheck(v1->equivalentVariableCount() == 1 && v1->equivalentVariable(0) == v2, "cloning leaves the original's equivalences alone");
    NO_UNCAUGHT();
#ifdef WITNESS
    vcheck(0, "witness");
#endif
}
