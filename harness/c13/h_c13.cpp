// C13: Annotator::assignAllIds / assignIds: complete, unique, non-destructive - also when the model was edited after it was
// handed to the annotator.  Skeleton: model / units / component / variable; pre-existing ids and one later edit are symbolic
// over {"", "b4da55", "b4da56", "x"} ("b4da55" is the first automatic id).
#include <string>
#include "vh.h"
#include "libcellml/annotator.h"
#include "libcellml/component.h"
#include "libcellml/model.h"
#include "libcellml/units.h"
#include "libcellml/variable.h"
using namespace libcellml;
#ifdef WITNESS
#    define END() NO_UNCAUGHT(); vcheck(0, "witness")
#else
#    define END() NO_UNCAUGHT()
#endif
static std::string symId()
{
    int k = vin(0, 3);
    return k == 0 ? "" : k == 1 ? "b4da55" : k == 2 ? "b4da56" : "x";
}
#ifndef EDIT
#    define EDIT 1
#endif
extern "C" void h_assign_all()
{
    auto m = Model::create("m");
    auto u = Units::create("u");
    auto c = Component::create("c");
    auto v = Variable::create("v");
    c->addVariable(v);
    m->addComponent(c);
    m->addUnits(u);
    std::string i0 = symId();
    m->setId(i0);
    std::string i1 = symId();
    u->setId(i1);
    std::string i2 = symId();
    c->setId(i2);
    std::string i3 = symId();
    v->setId(i3);
    auto ann = Annotator::create();
    ann->setModel(m);
    NO_UNCAUGHT_AT("setModel");
    // the model is edited after it was handed to the annotator (EDIT selects which entity; the new id is symbolic)
    std::string e = symId();
#if EDIT == 1
    c->setId(e);
#elif EDIT == 2
    v->setId(e);
#elif EDIT == 3
    u->setId(e);
#endif
    // ids present at the time of the call
    std::string b0 = m->id(), b1 = u->id(), b2 = c->id(), b3 = v->id();
    ann->assignAllIds();
    NO_UNCAUGHT_AT("assignAllIds");
    std::string a0 = m->id(), a1 = u->id(), a2 = c->id(), a3 = v->id();
    vouts("a0", a0); vouts("a1", a1); vouts("a2", a2); vouts("a3", a3);
    vcheck(!a0.empty() && !a1.empty() && !a2.empty() && !a3.empty(), "after assignAllIds every item has an identifier");
    vcheck((b0.empty() || a0 == b0) && (b1.empty() || a1 == b1) && (b2.empty() || a2 == b2) && (b3.empty() || a3 == b3), "identifiers that existed before are unchanged");
#define FRESH(bx, ax) (!(bx).empty() || ((ax) != b0 && (ax) != b1 && (ax) != b2 && (ax) != b3))
    vcheck(FRESH(b0, a0) && FRESH(b1, a1) && FRESH(b2, a2) && FRESH(b3, a3), "a newly assigned identifier differs from every identifier present in the model at the time of the call");
    // new ids are pairwise distinct
    vcheck(!(b0.empty() && b1.empty() && a0 == a1) && !(b0.empty() && b2.empty() && a0 == a2) && !(b0.empty() && b3.empty() && a0 == a3)
               && !(b1.empty() && b2.empty() && a1 == a2) && !(b1.empty() && b3.empty() && a1 == a3) && !(b2.empty() && b3.empty() && a2 == a3),
           "newly assigned identifiers are pairwise different");
    END();
}
