// C15: issue reporting coherence.  h_logger: the real Logger (logger.cpp) after NISSUES symbolic-level addIssue calls and
// one further operation.
#include <map>
#include <string>
#include <vector>
#include "vh.h"
#define private public
#define protected public
#include "libcellml/issue.h"
#include "libcellml/logger.h"
#undef private
#undef protected
#include "issue_p.h"
#include "logger_p.h"
using namespace libcellml;

class TestLogger: public Logger
{
public:
    TestLogger()
        : Logger(new Logger::LoggerImpl())
    {
    }
    ~TestLogger() override
    {
        delete pFunc();
    }
};

static IssuePtr mkIssue(int level)
{
    IssuePtr i = Issue::IssueImpl::create();
    i->mPimpl->setLevel((Issue::Level)level);
    return i;
}
#ifndef NISSUES
#    define NISSUES 3
#endif
#define ADD(n) int l##n = vin(0, 2); IssuePtr i##n = mkIssue(l##n); log.pFunc()->addIssue(i##n); lv[cnt] = l##n; is[cnt] = i##n.get(); ++cnt;

extern "C" void h_logger()
{
    TestLogger log;
    int lv[NISSUES + 2];
    Issue *is[NISSUES + 2];
    int cnt = 0;
    ADD(0)
#if NISSUES >= 2
    ADD(1)
#endif
#if NISSUES >= 3
    ADD(2)
#endif
#if NISSUES >= 4
    ADD(3)
#endif
#if NISSUES >= 5
    ADD(4)
#endif
    int op = vin(0, 2);
    if (op == 0) {
        ADD(9)
    } else if (op == 1) {
        log.pFunc()->removeAllIssues();
        cnt = 0;
    } else {
        // Caller contract of the private removeError (importer.cpp): the error removed is the last issue of the list.
        vassume(lv[cnt - 1] == 0);
        size_t ne = log.errorCount();
        log.pFunc()->removeError(ne - 1);
        --cnt;
    }
    NO_UNCAUGHT();
    // oracle: recount from the shadow list
    int ne = 0, nw = 0, nm = 0;
    for (int i = 0; i < cnt; ++i) {
        if (lv[i] == 0) ++ne; else if (lv[i] == 1) ++nw; else ++nm;
    }
    vout("issues", log.issueCount()); vout("errors", log.errorCount());
    vcheck((int)log.issueCount() == cnt, "issueCount is the number of issues added and not removed");
    vcheck(log.issueCount() == log.errorCount() + log.warningCount() + log.messageCount(), "issueCount = errorCount + warningCount + messageCount");
    vcheck((int)log.errorCount() == ne && (int)log.warningCount() == nw && (int)log.messageCount() == nm, "per-level counts match the issues' levels");
    int e = 0, w = 0, m = 0;
    for (int i = 0; i < cnt; ++i) {
        vcheck(log.issue(i).get() == is[i], "issue(i) enumerates the issues in order");
        if (lv[i] == 0) { vcheck(log.error(e).get() == is[i], "error(i) enumerates exactly the error-level issues in order"); ++e; }
        else if (lv[i] == 1) { vcheck(log.warning(w).get() == is[i], "warning(i) enumerates exactly the warning-level issues in order"); ++w; }
        else { vcheck(log.message(m).get() == is[i], "message(i) enumerates exactly the message-level issues in order"); ++m; }
    }
    vcheck(log.issue(cnt) == nullptr && log.error(ne) == nullptr && log.warning(nw) == nullptr && log.message(nm) == nullptr, "out-of-range indices return null");
    unsigned big = (unsigned)vin(0, 2147483647);
    if ((int)big >= cnt) vcheck(log.issue(big) == nullptr && log.error(big) == nullptr && log.warning(big) == nullptr && log.message(big) == nullptr, "any out-of-range index returns null");
    NO_UNCAUGHT();
#ifdef WITNESS
    vcheck(0, "witness");
#endif
}

