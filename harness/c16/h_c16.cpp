// C16: numeric text recognisers and conversions (utilities.cpp), Units::addUnit prefix handling (units.cpp).
#include <string>
#include "vh.h"
#include "utilities.h"
#include "libcellml/units.h"
using namespace libcellml;
#ifndef MAXLEN
#    define MAXLEN 5
#endif

// ---- reference grammar (the property statement), a plain scanner over a char buffer
static bool isDigit(char c) { return c >= '0' && c <= '9'; }
// real: -? (digits with at most one '.', at least one digit) ( [eE] [+-]? digits )?
static bool refBasicReal(const char *s, int b, int e)
{
    int i = b;
    if (i < e && s[i] == '-') ++i;
    int digits = 0, dots = 0;
    for (; i < e; ++i) {
        if (s[i] == '.') ++dots;
        else if (isDigit(s[i])) ++digits;
        else return false;
    }
    return digits >= 1 && dots <= 1;
}
static bool refInteger(const char *s, int b, int e)
{
    int i = b;
    if (i < e && (s[i] == '-' || s[i] == '+')) ++i;
    if (i >= e) return false;
    for (; i < e; ++i) if (!isDigit(s[i])) return false;
    return true;
}
static bool refReal(const char *s, int n)
{
    int epos = -1;
    for (int i = 0; i < n; ++i) {
        if (s[i] == 'e' || s[i] == 'E') { epos = i; break; }
    }
    if (epos < 0) return refBasicReal(s, 0, n);
    return refBasicReal(s, 0, epos) && refInteger(s, epos + 1, n);
}

static int mkString(std::string &s, char *buf)
{
    int n = vin(0, MAXLEN);
    for (int i = 0; i < MAXLEN; ++i) {
        char c = (char)vin(1, 255);
        buf[i] = c;
        if (i < n) s.push_back(c);
    }
    return n;
}

// the recognisers agree with the grammar on every string of length <= MAXLEN over all byte values 1..255
extern "C" void h_recognisers()
{
    char buf[MAXLEN + 1];
    std::string s;
    int n = mkString(s, buf);
    bool real = isCellMLReal(s);
    bool basic = isCellMLBasicReal(s);
    bool integer = isCellMLInteger(s);
    bool nonneg = isNonNegativeCellMLInteger(s);
    vout("real", real); vout("basic", basic); vout("int", integer); vout("nonneg", nonneg);
    vcheck(real == refReal(buf, n), "isCellMLReal accepts exactly the CellML real grammar");
    vcheck(basic == refBasicReal(buf, 0, n), "isCellMLBasicReal accepts exactly the CellML basic real grammar");
    vcheck(integer == refInteger(buf, 0, n), "isCellMLInteger accepts exactly the CellML integer grammar");
    vcheck(nonneg == (n > 0 && buf[0] != '-' && buf[0] != '+' && refInteger(buf, 0, n)), "isNonNegativeCellMLInteger accepts exactly digit strings");
    NO_UNCAUGHT();
#ifdef WITNESS
    vcheck(0, "witness");
#endif
}

// every conversion entry point: never throws; result false for rejected text; true or out-of-range for accepted text
extern "C" void h_conversions()
{
    char buf[MAXLEN + 1];
    std::string s;
    __vrt_static_init(); // standardPrefixList
    int n = mkString(s, buf);
    double d = 0.0;
    bool okD = convertToDouble(s, d);
    NO_UNCAUGHT_AT("convertToDouble");
    vout("convertToDouble", okD);
    if (!refReal(buf, n)) vcheck(!okD, "convertToDouble rejects text outside the real grammar");
    bool okB = canConvertToBasicDouble(s);
    NO_UNCAUGHT_AT("canConvertToBasicDouble");
    vout("canConvertToBasicDouble", okB);
    if (!refBasicReal(buf, 0, n)) vcheck(!okB, "canConvertToBasicDouble rejects text outside the basic real grammar");
    int iv = 0;
    bool okI = convertToInt(s, iv);
    NO_UNCAUGHT_AT("convertToInt");
    vout("convertToInt", okI); vout("intvalue", okI ? iv : 0);
    if (!refInteger(buf, 0, n)) vcheck(!okI, "convertToInt rejects text outside the integer grammar");
    if (refInteger(buf, 0, n) && n <= 9) vcheck(okI, "convertToInt converts every integer of at most 9 characters");
    bool okP = false;
    int p = convertPrefixToInt(s, &okP);
    NO_UNCAUGHT_AT("convertPrefixToInt");
    vout("convertPrefixToInt", okP); vout("prefixvalue", p);
#ifdef WITNESS
    vcheck(0, "witness");
#endif
}

// Units::addUnit with arbitrary prefix text: never throws; the text is kept (so that the validator can report it) unless it is
// a CellML integer of value zero, which means "no prefix"
extern "C" void h_units_prefix()
{
    char buf[MAXLEN + 1];
    std::string s;
    int n = mkString(s, buf);
    auto u = Units::create("u");
    u->addUnit("metre", s, 1.0, 1.0);
    NO_UNCAUGHT_AT("Units::addUnit(prefix)");
    vout("unitCount", u->unitCount());
    std::string kept = u->unitAttributePrefix(0);
    vouts("kept", kept);
    bool isInt = refInteger(buf, 0, n);
    bool allZero = isInt;
    for (int i = 0; i < n; ++i) {
        if (buf[i] != '0' && buf[i] != '+' && buf[i] != '-') allZero = false;
    }
    if (isInt && allZero) {
        vcheck(kept.empty(), "an integer prefix of value zero is dropped");
    } else {
        vcheck(kept == s, "every other prefix text is kept as given");
    }
#ifdef WITNESS
    vcheck(0, "witness");
#endif
}
// the scaling code converts the stored prefix text again
extern "C" void h_units_scaling_prefix()
{
    char buf[MAXLEN + 1];
    std::string s;
    mkString(s, buf);
    auto u = Units::create("u");
    u->addUnit("metre", s, 1.0, 1.0);
    auto v = Units::create("v");
    v->addUnit("metre");
    double f = Units::scalingFactor(u, v);
    NO_UNCAUGHT_AT("Units::scalingFactor with text prefix");
    vout("factorIsZero", f == 0.0);
#ifdef WITNESS
    vcheck(0, "witness");
#endif
}

// printer side: text in the output language of ostream<<setprecision(15)<<double (finite values) is a CellML real,
// and convertToString(int) is a CellML integer.
static bool refPrintfG(const char *s, int n)
{
    int i = 0;
    if (i < n && s[i] == '-') ++i;
    int d = 0;
    while (i < n && isDigit(s[i])) { ++i; ++d; }
    if (d == 0) return false;
    if (i < n && s[i] == '.') {
        ++i;
        int f = 0;
        while (i < n && isDigit(s[i])) { ++i; ++f; }
        if (f == 0) return false;
    }
    if (i == n) return true;
    if (s[i] != 'e') return false;
    ++i;
    if (i >= n || (s[i] != '+' && s[i] != '-')) return false;
    ++i;
    int x = 0;
    while (i < n && isDigit(s[i])) { ++i; ++x; }
    return x >= 2 && i == n;
}
extern "C" void h_printed_real()
{
    char buf[MAXLEN + 1];
    std::string s;
    int n = mkString(s, buf);
    bool isPrinted = refPrintfG(buf, n);
    vout("printed", isPrinted);
    if (isPrinted) {
        vcheck(isCellMLReal(s), "every finite double as printed (general format) is accepted as a CellML real");
    }
    NO_UNCAUGHT();
#ifdef WITNESS
    vcheck(0, "witness");
#endif
}
extern "C" void h_printed_int()
{
    int v = vin(-2147483647 - 1, 2147483647);
    std::string t = convertToString(v);
    vouts("int", t);
    char buf[16];
    int n = (int)t.size();
    vcheck(n >= 1 && n <= 11, "convertToString(int) yields 1 to 11 characters");
    if (n < 1 || n > 11) return;
    for (int i = 0; i < 11; ++i) buf[i] = i < n ? t[i] : 0;
    // (isCellMLInteger == refInteger is the h_recognisers obligation for strings up to MAXLEN; running the real recogniser on an
    //  11-character symbolic string is beyond the solver budget, so the grammar itself is the oracle here)
    vcheck(refInteger(buf, 0, n), "convertToString(int) yields text in the CellML integer grammar");
    vcheck(buf[0] != '+', "convertToString(int) never prints a plus sign");
    NO_UNCAUGHT();
#ifdef WITNESS
    vcheck(0, "witness");
#endif
}

// convertToInt at and beyond the limits of int: text = optional '-' + a fixed stem + one or two symbolic last digits
extern "C" void h_int_range()
{
    int stem = vin(0, 3);
    bool neg = vin(0, 1) != 0;
    int d1 = vin(0, 9);
    int d2 = vin(0, 10); // 10: no second extra digit
    std::string t;
    if (neg) t.push_back('-');
    t.append(stem == 0 ? "214748364" : stem == 1 ? "429496729" : stem == 2 ? "922337203685477580" : "99999999");
    t.push_back((char)('0' + d1));
    if (d2 < 10) t.push_back((char)('0' + d2));
    // the value, exactly (the longest text has 21 digits: compare as a decimal string against the limits)
    long long limitStem = stem == 0 ? 214748364LL : stem == 1 ? 429496729LL : stem == 3 ? 99999999LL : -1;
    bool fits = false;
    long long value = 0;
    if (limitStem >= 0) {
        value = limitStem * 10 + d1;
        if (d2 < 10) value = value * 10 + d2;
        if (neg) value = -value;
        fits = value >= -2147483648LL && value <= 2147483647LL;
    }
    int out = 0;
    bool ok = convertToInt(t, out);
    NO_UNCAUGHT_AT("convertToInt at the int limits");
    vouts("text", t); vout("ok", ok);
    vcheck(ok == fits, "convertToInt succeeds exactly for integers that fit into an int");
    if (ok) vcheck((long long)out == value, "convertToInt returns the value of the text");
#ifdef WITNESS
    vcheck(0, "witness");
#endif
}
