// C18 part 1: the memoised AnalyserModel::areEquivalentVariables (analysermodel.cpp, the real function) against an oracle
// for the connection graph.  The addresses of the variable objects are the solver's variables.
#include <map>
#include <memory>
#include <string>
#include <vector>
#define private public
#define protected public
#include "libcellml/analysermodel.h"
#include "libcellml/variable.h"
#undef private
#undef protected
#include "vh.h"
#include "analysermodel.cpp"

using namespace libcellml;

// the graph's answer for the two (unordered) pairs this scenario asks about
static uintptr_t gA1, gA2, gB1, gB2;
static bool gRA, gRB;
static int gGraphCalls = 0;
namespace libcellml {
// stands in for utilities.cpp: areEquivalentVariables (the graph search, which C18 part 2 checks on its own)
bool areEquivalentVariables(const VariablePtr &variable1, const VariablePtr &variable2)
{
    uintptr_t x = reinterpret_cast<uintptr_t>(variable1.get());
    uintptr_t y = reinterpret_cast<uintptr_t>(variable2.get());
    ++gGraphCalls;
    if ((x == gA1 && y == gA2) || (x == gA2 && y == gA1)) {
        return gRA;
    }
    if ((x == gB1 && y == gB2) || (x == gB2 && y == gB1)) {
        return gRB;
    }
    return false;
}
} // namespace libcellml

static VariablePtr fake(uintptr_t a)
{
    // non-owning pointer with a chosen address (aliasing constructor with an empty owner); never dereferenced
    return VariablePtr(VariablePtr(), reinterpret_cast<Variable *>(a));
}
static uintptr_t addr()
{
    // an 8-byte aligned user-space address below 2^47.
    // BASE_HI given: the upper 32 bits are that constant and the lower SPAN_BITS bits are symbolic (objects inside one heap span);
    // otherwise all 47 bits are symbolic.
#ifdef BASE_HI
    uintptr_t hi = (uintptr_t)BASE_HI;
    uintptr_t lo = (uintptr_t)(unsigned)vin(0, (1 << SPAN_BITS) - 1) + (uintptr_t)BASE_LO;
#else
    uintptr_t hi = (uintptr_t)(unsigned)vin(0, 0x7fff);
    uintptr_t lo = (uintptr_t)(unsigned)vin(-2147483647 - 1, 2147483647);
#endif
    uintptr_t a = (hi << 32) | (lo & ~(uintptr_t)7);
    vassume(a >= 4096);
    return a;
}

extern "C" void h_cache()
{
    gA1 = addr(); gA2 = addr(); gB1 = addr(); gB2 = addr();
    vassume(!((gA1 == gB1 && gA2 == gB2) || (gA1 == gB2 && gA2 == gB1))); // two different unordered pairs
    gRA = vin(0, 1) != 0;
    gRB = vin(0, 1) != 0;
    if (gA1 == gA2) vassume(gRA); // a variable is equivalent to itself
    if (gB1 == gB2) vassume(gRB);
    AnalyserModelPtr am = AnalyserModel::AnalyserModelImpl::create(nullptr);
    bool q1 = am->areEquivalentVariables(fake(gA1), fake(gA2));
    vout("q1", q1);
    vcheck(q1 == gRA, "first query returns the connection graph's answer");
    bool q2 = am->areEquivalentVariables(fake(gB1), fake(gB2));
    vout("q2", q2);
    vcheck(q2 == gRB, "a query is never answered from a different pair's cache entry");
    bool q3 = am->areEquivalentVariables(fake(gA2), fake(gA1));
    vout("q3", q3);
    vcheck(q3 == gRA, "repeating a query in either order returns the same answer");
    bool q4 = am->areEquivalentVariables(fake(gB2), fake(gB1));
    vcheck(q4 == gRB, "repeating the second query in either order returns the same answer");
    NO_UNCAUGHT();
#ifdef WITNESS
    vcheck(0, "witness");
#endif
}
