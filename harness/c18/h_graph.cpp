// C18 part 2: Variable::hasEquivalentVariable(v, true) and utilities.cpp:areEquivalentVariables against the transitive
// closure of the connection graph.  4 variables in 2 components, straight-line construction (every object has its own
// allocation site).  One shape per solver query (driver-enumerated): EDGES = bit mask over the 6 possible equivalences,
// REMOVE = index of one equivalence removed again (or -1).  Symbolic per query: the queried pair.
#include <string>
#include "vh.h"
#include "libcellml/component.h"
#include "libcellml/variable.h"
#include "utilities.h"
using namespace libcellml;
#ifndef EDGES
#    define EDGES 3
#endif
#ifndef REMOVE
#    define REMOVE -1
#endif
#define NV 4
static bool adj[NV][NV];
#define EDGE(k, i, j, vi, vj) \
    if (((EDGES >> k) & 1) != 0) { bool ok = Variable::addEquivalence(vi, vj); vcheck(ok, "adding a new equivalence succeeds"); adj[i][j] = adj[j][i] = true; }
#define UNEDGE(k, i, j, vi, vj) \
    if (REMOVE == k) { bool had = adj[i][j]; bool ok = Variable::removeEquivalence(vi, vj); vcheck(ok == had, "removeEquivalence succeeds exactly for an existing equivalence"); adj[i][j] = adj[j][i] = false; }
#define QUERY(i, j, vi, vj) \
    if (qi == i && qj == j) { \
        bool want = reach[i][j]; \
        bool got1 = areEquivalentVariables(vi, vj); \
        bool got2 = areEquivalentVariables(vi, vj); \
        bool got3 = areEquivalentVariables(vj, vi); \
        vout("want", want); vout("got", got1); \
        vcheck(got1 == want, "areEquivalentVariables is true exactly for variables linked by a chain of equivalences"); \
        vcheck(got2 == got1, "repeating the query gives the same answer"); \
        vcheck(got3 == got1, "the answer does not depend on the order of the two variables"); \
        if (i != j) { \
            vcheck(vi->hasEquivalentVariable(vj, true) == want, "hasEquivalentVariable(v, true) is true exactly for variables linked by a chain of equivalences"); \
            vcheck(vi->hasEquivalentVariable(vj, false) == adj[i][j], "hasEquivalentVariable(v, false) is true exactly for directly equivalent variables"); \
        } \
    }

extern "C" void h_graph()
{
    ComponentPtr ca = Component::create("a");
    ComponentPtr cb = Component::create("b");
    VariablePtr v0 = Variable::create("p");
    VariablePtr v1 = Variable::create("q");
    VariablePtr v2 = Variable::create("r");
    VariablePtr v3 = Variable::create("s");
    ca->addVariable(v0); cb->addVariable(v1); ca->addVariable(v2); cb->addVariable(v3);
    EDGE(0, 0, 1, v0, v1) EDGE(1, 0, 2, v0, v2) EDGE(2, 0, 3, v0, v3) EDGE(3, 1, 2, v1, v2) EDGE(4, 1, 3, v1, v3) EDGE(5, 2, 3, v2, v3)
    UNEDGE(0, 0, 1, v0, v1) UNEDGE(1, 0, 2, v0, v2) UNEDGE(2, 0, 3, v0, v3) UNEDGE(3, 1, 2, v1, v2) UNEDGE(4, 1, 3, v1, v3) UNEDGE(5, 2, 3, v2, v3)
    bool reach[NV][NV];
    for (int i = 0; i < NV; ++i)
        for (int j = 0; j < NV; ++j) reach[i][j] = adj[i][j] || i == j;
    for (int k = 0; k < NV; ++k)
        for (int i = 0; i < NV; ++i)
            for (int j = 0; j < NV; ++j)
                if (reach[i][k] && reach[k][j]) reach[i][j] = true;
    int qi = vin(0, NV - 1), qj = vin(0, NV - 1);
    QUERY(0, 0, v0, v0) QUERY(0, 1, v0, v1) QUERY(0, 2, v0, v2) QUERY(0, 3, v0, v3)
    QUERY(1, 0, v1, v0) QUERY(1, 1, v1, v1) QUERY(1, 2, v1, v2) QUERY(1, 3, v1, v3)
    QUERY(2, 0, v2, v0) QUERY(2, 1, v2, v1) QUERY(2, 2, v2, v2) QUERY(2, 3, v2, v3)
    QUERY(3, 0, v3, v0) QUERY(3, 1, v3, v1) QUERY(3, 2, v3, v2) QUERY(3, 3, v3, v3)
    NO_UNCAUGHT();
#ifdef WITNESS
    vcheck(0, "witness");
#endif
}

// an expired entry (an equivalent variable that was destroyed) sits in the list before the equivalence that is removed
extern "C" void h_expired()
{
    ComponentPtr ca = Component::create("a");
    ComponentPtr cb = Component::create("b");
    VariablePtr p = Variable::create("p");
    VariablePtr a = Variable::create("q");
    VariablePtr b = Variable::create("r");
    ca->addVariable(p); cb->addVariable(a); cb->addVariable(b);
#ifndef WHEN
#    define WHEN 0
#endif
    // WHEN: the scratch variable is connected first, second or last (fixed per query: list contents stay concrete)
    {
        VariablePtr scratch = Variable::create("s");
#if WHEN == 0
        Variable::addEquivalence(p, scratch);
        Variable::addEquivalence(p, a);
        Variable::addEquivalence(p, b);
#elif WHEN == 1
        Variable::addEquivalence(p, a);
        Variable::addEquivalence(p, scratch);
        Variable::addEquivalence(p, b);
#else
        Variable::addEquivalence(p, a);
        Variable::addEquivalence(p, b);
        Variable::addEquivalence(p, scratch);
#endif
    } // scratch is destroyed here: p keeps an expired entry
    bool removeA = vin(0, 1) != 0;
    bool ok = removeA ? Variable::removeEquivalence(p, a) : Variable::removeEquivalence(p, b);
    vcheck(ok, "removing an existing equivalence succeeds");
    VariablePtr gone = removeA ? a : b;
    VariablePtr kept = removeA ? b : a;
    vcheck(!p->hasEquivalentVariable(gone, true) && !gone->hasEquivalentVariable(p, true), "a removed equivalence is gone in both directions");
    vcheck(p->hasEquivalentVariable(kept, true) && kept->hasEquivalentVariable(p, true), "the other equivalence is still there in both directions");
    vcheck(areEquivalentVariables(p, kept) && !areEquivalentVariables(p, gone) && !areEquivalentVariables(a, b), "areEquivalentVariables follows the remaining graph");
    vcheck(p->equivalentVariableCount() == 1 && p->equivalentVariable(0) == kept, "the live equivalence list is exactly the remaining variable");
    NO_UNCAUGHT();
#ifdef WITNESS
    vcheck(0, "witness");
#endif
}
