// C18 part 1a: injectivity of the memoisation key of AnalyserModel::areEquivalentVariables.
// c18_key_extract.inc is cut out of /repo/src/analysermodel.cpp on every run: the statements between the two
// reinterpret_casts of the variable addresses and the cache lookup (they turn v1, v2 into `key`).
#include <map>
#include <memory>
#include <string>
#include <utility>
#include <cstdint>
#include "vh.h"

static auto keyOf(uintptr_t v1, uintptr_t v2)
{
#include "c18_key_extract.inc"
    return key;
}
static uintptr_t addr()
{
    // any 8-byte aligned user-space address: 4096 <= a < 2^47
    uintptr_t a = (uintptr_t)__vrt_in64();
    vassume((a & 7) == 0 && a < ((uintptr_t)1 << 47) && a >= 4096);
    return a;
}
extern "C" void h_key()
{
    uintptr_t a1 = addr(), a2 = addr(), b1 = addr(), b2 = addr();
    vassume(!((a1 == b1 && a2 == b2) || (a1 == b2 && a2 == b1)));
    bool same = keyOf(a1, a2) == keyOf(b1, b2);
    vout("samekey", same);
    vcheck(!same, "two different pairs of variable addresses never share a cache key");
    vcheck(keyOf(a1, a2) == keyOf(a2, a1), "the cache key does not depend on the order of the two variables");
#ifdef WITNESS
    vcheck(0, "witness");
#endif
}
