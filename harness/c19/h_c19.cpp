// C19: Model::fixVariableInterfaces / linkUnits / clean establish what they promise.
// Straight-line skeletons; POS (relative position of the connected variables' components) is fixed per solver query by the
// driver; the pre-existing interface attributes, the way units are named and the emptiness of names/ids/math are symbolic.
#include <string>
#include "vh.h"
#include "libcellml/component.h"
#include "libcellml/model.h"
#include "libcellml/reset.h"
#include "libcellml/units.h"
#include "libcellml/variable.h"
using namespace libcellml;
#ifndef POS
#    define POS 0
#endif
#ifdef WITNESS
#    define END() NO_UNCAUGHT(); vcheck(0, "witness")
#else
#    define END() NO_UNCAUGHT()
#endif

static void symInterface(const VariablePtr &v)
{
    int k = vin(0, 7); // unset, none, public, private, public_and_private, invalid strings (two of them contain a valid word)
    if (k == 1) v->setInterfaceType(Variable::InterfaceType::NONE);
    if (k == 2) v->setInterfaceType(Variable::InterfaceType::PUBLIC);
    if (k == 3) v->setInterfaceType(Variable::InterfaceType::PRIVATE);
    if (k == 4) v->setInterfaceType(Variable::InterfaceType::PUBLIC_AND_PRIVATE);
    if (k == 5) v->setInterfaceType(std::string("x"));
    if (k == 6) v->setInterfaceType(std::string("not_private"));
    if (k == 7) v->setInterfaceType(std::string("private_and_public"));
}
// does interface string s cover requirement (needPublic, needPrivate)?  (CellML 2.0 section 3.10 as applied by the validator)
static bool covers(const std::string &s, bool needPublic, bool needPrivate)
{
    bool pub = s == "public" || s == "public_and_private";
    bool pri = s == "private" || s == "public_and_private";
    return (!needPublic || pub) && (!needPrivate || pri);
}
#define CHECK_VAR(v, needPub, needPri, before) \
    vcheck(covers(v->interfaceType(), needPub, needPri), "after fixVariableInterfaces every connected variable has an interface sufficient for its equivalences"); \
    if (covers(before, needPub, needPri)) vcheck(v->interfaceType() == before, "a variable whose interface already sufficed is unchanged");

extern "C" void h_fix_interfaces()
{
    auto m = Model::create("m");
    auto c1 = Component::create("a");
    auto c2 = Component::create("b");
    auto c3 = Component::create("c");
    auto c4 = Component::create("d");
    auto v1 = Variable::create("p");
    auto v2 = Variable::create("q");
    auto v3 = Variable::create("r");
    c1->addVariable(v1);
    c2->addVariable(v2);
    c3->addVariable(v3);
    symInterface(v1);
    symInterface(v2);
    symInterface(v3);
    std::string b1 = v1->interfaceType(), b2 = v2->interfaceType(), b3 = v3->interfaceType();
#if POS == 0
    // siblings under the model
    m->addComponent(c1); m->addComponent(c2);
    Variable::addEquivalence(v1, v2);
    bool ok = m->fixVariableInterfaces();
    vcheck(ok, "fixVariableInterfaces succeeds for sibling components");
    CHECK_VAR(v1, true, false, b1) CHECK_VAR(v2, true, false, b2)
#elif POS == 1
    // parent (c1) and child (c2)
    m->addComponent(c1); c1->addComponent(c2);
    Variable::addEquivalence(v1, v2);
    bool ok = m->fixVariableInterfaces();
    vcheck(ok, "fixVariableInterfaces succeeds for parent and child");
    CHECK_VAR(v1, false, true, b1) CHECK_VAR(v2, true, false, b2)
#elif POS == 2
    // siblings under a common parent component
    m->addComponent(c3); c3->addComponent(c1); c3->addComponent(c2);
    Variable::addEquivalence(v2, v1);
    bool ok = m->fixVariableInterfaces();
    vcheck(ok, "fixVariableInterfaces succeeds for encapsulated siblings");
    CHECK_VAR(v1, true, false, b1) CHECK_VAR(v2, true, false, b2)
#elif POS == 3
    // v1 connected to a sibling (v2) and to a child (v3): needs both
    m->addComponent(c1); m->addComponent(c2); c1->addComponent(c3);
    Variable::addEquivalence(v1, v2);
    Variable::addEquivalence(v1, v3);
    bool ok = m->fixVariableInterfaces();
    vcheck(ok, "fixVariableInterfaces succeeds for sibling plus child");
    CHECK_VAR(v1, true, true, b1) CHECK_VAR(v2, true, false, b2) CHECK_VAR(v3, true, false, b3)
#elif POS == 4
    // unreachable: grandparent and grandchild (c1 > c3 > c2); the sibling pair (v1, v3 under... ) is still fixed
    m->addComponent(c1); c1->addComponent(c3); c3->addComponent(c2); m->addComponent(c4);
    auto v4 = Variable::create("s");
    c4->addVariable(v4);
    Variable::addEquivalence(v1, v2);
    Variable::addEquivalence(v3, v2);
    bool ok = m->fixVariableInterfaces();
    vcheck(!ok, "fixVariableInterfaces reports components that are neither siblings nor parent and child");
    CHECK_VAR(v3, false, true, b3)
#elif POS == 5
    // a parentless variable
    m->addComponent(c1); m->addComponent(c2);
    auto vx = Variable::create("x");
    Variable::addEquivalence(v1, vx);
    Variable::addEquivalence(v2, v1);
    bool ok = m->fixVariableInterfaces();
    vcheck(!ok, "fixVariableInterfaces reports an equivalence with a parentless variable");
    CHECK_VAR(v2, true, false, b2)
#elif POS == 6
    // cousins (children of two sibling components): not reachable
    m->addComponent(c3); m->addComponent(c4); c3->addComponent(c1); c4->addComponent(c2);
    Variable::addEquivalence(v1, v2);
    bool ok = m->fixVariableInterfaces();
    vcheck(!ok, "fixVariableInterfaces reports cousins");
#elif POS == 7
    // v1 is connected to a sibling, to a child and - last - to a parentless variable: still a failure
    m->addComponent(c1); m->addComponent(c2); c1->addComponent(c3);
    auto vx = Variable::create("x");
    Variable::addEquivalence(v1, v2);
    Variable::addEquivalence(v1, v3);
    Variable::addEquivalence(v1, vx);
    bool ok = m->fixVariableInterfaces();
    vcheck(!ok, "fixVariableInterfaces reports an equivalence with a parentless variable");
    CHECK_VAR(v2, true, false, b2) CHECK_VAR(v3, true, false, b3)
#elif POS == 8
    // v1 is connected to a sibling, to a child and - last - to an unreachable grandchild (c4 below c3)
    m->addComponent(c1); m->addComponent(c2); c1->addComponent(c3); c3->addComponent(c4);
    auto v4 = Variable::create("s");
    c4->addVariable(v4);
    Variable::addEquivalence(v1, v2);
    Variable::addEquivalence(v1, v3);
    Variable::addEquivalence(v1, v4);
    bool ok = m->fixVariableInterfaces();
    vcheck(!ok, "fixVariableInterfaces reports components that are neither siblings nor parent and child");
    CHECK_VAR(v2, true, false, b2) CHECK_VAR(v3, true, false, b3)
#endif
    vout("ok", ok);
    END();
}

extern "C" void h_link_units()
{
    auto m = Model::create("m");
    auto other = Model::create("o");
    auto c1 = Component::create("a");
    auto v1 = Variable::create("p");
    auto v2 = Variable::create("q");
    std::string un("a"); // the model's units are called "a"; what the variable asks for is symbolic
    auto u = Units::create(un);
    auto foreign = Units::create("f");
    other->addUnits(foreign);
    m->addUnits(u);
    c1->addVariable(v1);
    c1->addVariable(v2);
    m->addComponent(c1);
#ifndef HOW
#    define HOW 1
#endif
    const int how = HOW; // how v1 names its units: fixed per query (an optional allocation would make the heap shape symbolic)
    std::string name("a");
    name[0] = (char)('a' + vin(0, 1));
#if HOW == 1
    v1->setUnits(name); // by name (a stand-alone units object)
#elif HOW == 2
    v1->setUnits(u); // the model's own object
#elif HOW == 3
    v1->setUnits(foreign); // an object owned by another model
#elif HOW == 4
    v1->setUnits(std::string("second")); // a standard unit
#elif HOW == 5
    auto loose = Units::create(name);
    loose->addUnit("metre");
    v1->setUnits(loose);
#endif
    v2->setUnits(u);
    bool ok = m->linkUnits();
    vout("ok", ok); vout("unlinked", m->hasUnlinkedUnits());
    if (ok) {
        vcheck(!m->hasUnlinkedUnits(), "after a successful linkUnits no units are unlinked");
        if (how == 1 || how == 5) vcheck(v1->units() == m->units(name), "a variable naming non-standard units holds the model's own units of that name");
    }
    if (how == 3) vcheck(!ok, "units owned by another model cannot be linked");
    if ((how == 1 || how == 5) && name != un) vcheck(!ok, "missing units are reported");
    if (how == 0 || how == 2 || how == 4 || ((how == 1 || how == 5) && name == un)) vcheck(ok, "linkUnits succeeds when every named units exists in the model");
    vcheck(v2->units() == u && m->unitsCount() == 1, "already linked variables and the model's units are untouched");
    END();
}

// linkUnits over a hierarchy: two siblings and a nested component; which variables carry units that cannot be linked
// (an object owned by another model) is symbolic.  The result has to account for every component, not only the last one visited.
extern "C" void h_link_units_tree()
{
    auto m = Model::create("m");
    auto other = Model::create("o");
    auto c1 = Component::create("a");
    auto c2 = Component::create("b");
    auto c3 = Component::create("c");
    auto v1 = Variable::create("p");
    auto v2 = Variable::create("q");
    auto v3 = Variable::create("r");
    auto u = Units::create("a");
    auto foreign = Units::create("f");
    other->addUnits(foreign);
    m->addUnits(u);
    c1->addVariable(v1);
    c2->addVariable(v2);
    c3->addVariable(v3);
    m->addComponent(c1);
    m->addComponent(c2);
    c2->addComponent(c3);
    // no solver verdict in 900 s even with one symbolic choice (measured): the solver query is attempted in the thorough tier only,
    // the quick tier runs this root through the model/real differential (all 8 combinations are hit by the seeds)
    bool f1 = vin(0, 1);
    bool f2 = vin(0, 1);
    bool f3 = vin(0, 1);
    v1->setUnits(u);
    v2->setUnits(u);
    v3->setUnits(u);
    if (f1) v1->setUnits(foreign);
    if (f2) v2->setUnits(foreign);
    if (f3) v3->setUnits(foreign);
    bool ok = m->linkUnits();
    bool unlinked = m->hasUnlinkedUnits();
    vout("ok", ok); vout("unlinked", unlinked);
    if (ok) vcheck(!unlinked, "after a successful linkUnits no units are unlinked");
    vcheck(ok == !(f1 || f2 || f3), "linkUnits fails exactly when some variable in some component holds units that cannot be linked");
    vcheck(m->unitsCount() == 1 && (f1 || v1->units() == u) && (f2 || v2->units() == u) && (f3 || v3->units() == u), "already linked variables and the model's units are untouched");
    END();
}

extern "C" void h_clean()
{
    auto m = Model::create("m");
    auto c1 = Component::create("");
    auto c2 = Component::create("");
    auto c3 = Component::create("");
    auto keep = Component::create("k");
    auto u1 = Units::create("");
    auto u2 = Units::create("w");
    bool n1 = vin(0, 1), i1 = vin(0, 1), m1 = vin(0, 1), var1 = vin(0, 1);
    bool n2 = vin(0, 1), i2 = vin(0, 1);
#ifdef C3NAMED
    const bool n3 = true;
#else
    const bool n3 = false; // whether the second child is empty is fixed per query
#endif
    bool un = vin(0, 1), ui = vin(0, 1), uc = vin(0, 1);
    if (n1) c1->setName("x");
    if (i1) c1->setId("i");
    if (m1) c1->setMath("<math/>");
    auto v = Variable::create("v");
    if (var1) c1->addVariable(v);
    if (n2) c2->setName("y");
    if (i2) c2->setId("j");
    if (un) u1->setName("u");
    if (ui) u1->setId("k");
    if (uc) u1->addUnit("metre");
    if (n3) c3->setName("z");
    c1->addComponent(c2);
    c1->addComponent(c3); // a second, adjacent child
    m->addComponent(c1);
    m->addComponent(keep);
    m->addUnits(u1);
    m->addUnits(u2);
    m->clean();
    bool c2empty = !n2 && !i2;
    bool c3empty = !n3;
    bool c1empty = !n1 && !i1 && !m1 && !var1 && c2empty && c3empty;
    bool u1empty = !un && !ui && !uc;
    vout("components", m->componentCount()); vout("units", m->unitsCount());
    vcheck((c1->parent() == nullptr) == c1empty, "clean removes exactly the empty top-level component");
    vcheck((c2->parent() == nullptr) == c2empty, "clean removes exactly the empty child component");
    vcheck((c3->parent() == nullptr) == c3empty, "clean removes exactly the empty child components, adjacent ones included");
    vcheck((u1->parent() == nullptr) == u1empty, "clean removes exactly the empty units");
    vcheck(keep->parent() == m && u2->parent() == m, "clean leaves non-empty components and units in place");
    vcheck(m->componentCount() == (size_t)(c1empty ? 1 : 2) && m->unitsCount() == (size_t)(u1empty ? 1 : 2), "clean leaves everything else untouched");
    if (!c1empty) vcheck(c1->name() == (n1 ? "x" : "") && c1->id() == (i1 ? "i" : "") && c1->variableCount() == (size_t)(var1 ? 1 : 0), "a kept component is unchanged");
    END();
}
