// Harness-side interface.  The same harness source is compiled (a) against vstd for the symbolic model and
// (b) with g++/libstdc++ against the real library for differential runs and replays.
#pragma once
extern "C" {
int __vrt_in_range(int lo, int hi); // next input: symbolic under CBMC; argv, then seeded PRNG, natively
unsigned long __vrt_in64(void); // a 64-bit input (two recorded halves)
void __vrt_check(int cond, const char *msg); // property (each call site is its own CBMC assertion)
void __vrt_assume(int cond);
void __vrt_out(const char *tag, long v); // observable for the model-vs-real diff (no-op under CBMC)
void __vrt_outs(const char *tag, const char *s);
void __vrt_static_init(void);
extern int __vstd_pending; // pending (uncaught so far) exception kind in the model; always 0 in the real build
extern int __vstd_trunc_used;
}
#define vin(lo, hi) __vrt_in_range((lo), (hi))
#define vcheck(c, m) __vrt_check((c) ? 1 : 0, m)
#define vassume(c) __vrt_assume((c) ? 1 : 0)
#define vout(t, v) __vrt_out(t, (long)(v))
#define vouts(t, s) __vrt_outs(t, (s).c_str())
#define NO_UNCAUGHT() vcheck(__vstd_pending == 0, "no uncaught exception")
// after an uncaught exception the real program is gone: check, then leave the harness
#define NO_UNCAUGHT_AT(m) do { vcheck(__vstd_pending == 0, "no uncaught exception: " m); if (__vstd_pending != 0) return; } while (0)
